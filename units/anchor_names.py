"""Unit anchor_names: the names the SQL back end records for columns - a user's name is kept verbatim, a name once recorded is never overwritten by a generated one,
only the column in question is touched.

Real code under contract (prqlc/prqlc/src/sql/pq/context.rs, whole functions):
  AnchorContext::ensure_column_name, AnchorContext::load_names, AnchorContext::register_compute
"""
import re

import common_rq
from extract import ExtractionError

CONTEXT = "prqlc/prqlc/src/sql/pq/context.rs"

LABELS = ["EN1", "EN2", "EN3", "EN4", "EN5", "LN1", "LN1i", "LN2", "RC1"]
FUNCTIONS = ["ensure_column_name", "load_names", "register_compute"]
RLIMIT = 100

ASSUMED = [
    {"what": "opaque external types", "keys": ["pub struct Opaque"]},
    {"what": "HashMap<CId, ColumnDecl> / HashMap<CId, String> are shims with a ghost Map view keyed by the id (index, insert, get, contains_key); "
             "`map.entry(k).or_insert_with(|| e)` is, by its std definition, `if !map.contains_key(&k) { map.insert(k, e); } map.get(&k).unwrap()` (e is evaluated only when the key is absent); "
             "NameGenerator::gen returns a name no column carries yet (`taken` is uninterpreted: freshness against names that are registered later is not covered; unit ids_names NG1 proves "
             "the generator's own names pairwise distinct); String::clone keeps the text; assert_eq! on two lengths is a call whose precondition is their equality (C12: a panic otherwise); "
             "`zip(a.iter(), b)` hands out the pairs (a[i], b[i]) in order (index loop); determine_select_columns is external (unit select_cols)",
     "keys": ["struct DeclMap", "struct NameMap", "fn view", "fn index", "fn insert", "fn get", "fn contains_key", "struct NameGen", "fn gen", "spec fn taken", "fn clone_string", "fn assert_eq_len",
              "fn determine_select_columns", "spec fn selected_of", "struct SqlTransformShim", "fn take_col"]},
]
TRUSTED = [
    "oracle (C09): a column that comes from a relation under a name keeps exactly that name in the generated SQL; a generated name is given only to a column that has no name of "
    "its own and no recorded one, and it is a name the generator has not handed out; naming one column changes the name of no other column",
    "oracle (C05): load_names records the names of a relation's declared columns for the ids its pipeline outputs, position by position",
    "precondition of load_names (C16, not verified here): the relation declares as many columns as its pipeline outputs (assert_eq!)",
]

PRELUDE = r"""
#![allow(unused_imports, dead_code, unused_variables, unused_mut, unused_parens, non_snake_case)]
use vstd::prelude::*;
verus! {
""" + common_rq.OPAQUE

SHIMS = r"""
use rq::{CId, Compute, RelationColumn};
pub type RIId = usize;
#[verifier::external_body] pub struct DeclMap { _p: u8 }
impl DeclMap {
    pub uninterp spec fn view(&self) -> Map<usize, ColumnDecl>;
    #[verifier::external_body]
    pub fn index(&self, k: &CId) -> (r: &ColumnDecl) requires self.view().contains_key(k.0), ensures *r == self.view()[k.0], { unimplemented!() }
    #[verifier::external_body]
    pub fn insert(&mut self, k: CId, v: ColumnDecl) -> (r: Option<ColumnDecl>) ensures final(self).view() == old(self).view().insert(k.0, v), { unimplemented!() }
}
#[verifier::external_body] pub struct NameMap { _p: u8 }
impl NameMap {
    pub uninterp spec fn view(&self) -> Map<usize, String>;
    #[verifier::external_body]
    pub fn contains_key(&self, k: &CId) -> (r: bool) ensures r == self.view().contains_key(k.0), { unimplemented!() }
    #[verifier::external_body]
    pub fn get(&self, k: &CId) -> (r: Option<&String>)
        ensures match r { Some(t) => self.view().contains_key(k.0) && *t == self.view()[k.0], None => !self.view().contains_key(k.0) },
    { unimplemented!() }
    #[verifier::external_body]
    pub fn insert(&mut self, k: CId, v: String) -> (r: Option<String>) ensures final(self).view() == old(self).view().insert(k.0, v), { unimplemented!() }
}
pub uninterp spec fn taken(s: Seq<char>) -> bool;
#[verifier::external_body] pub struct NameGen { _p: u8 }
impl NameGen {
    #[verifier::external_body] pub fn gen(&mut self) -> (r: String) ensures !taken(r@), { unimplemented!() }
}
#[verifier::external_body] pub fn clone_string(s: &String) -> (r: String) ensures r == *s, { unimplemented!() }
#[verifier::external_body] pub fn assert_eq_len(a: usize, b: usize) requires a == b, { unimplemented!() }
#[verifier::external_body] pub fn take_col(v: &mut Vec<RelationColumn>, i: usize) -> (r: RelationColumn) requires i < old(v)@.len(), ensures r == old(v)@[i as int], final(v)@.len() == old(v)@.len(),
    forall|j: int| 0 <= j < old(v)@.len() && j != i ==> final(v)@[j] == old(v)@[j], { unimplemented!() }
pub struct SqlTransformShim { pub rest: OpaqueT }
pub uninterp spec fn selected_of(p: Seq<SqlTransformShim>) -> Seq<CId>;
pub struct AnchorContext { pub column_decls: DeclMap, pub column_names: NameMap, pub col_name: NameGen }
impl AnchorContext {
    #[verifier::external_body]
    pub fn determine_select_columns(&self, pipeline: &Vec<SqlTransformShim>) -> (r: Vec<CId>) ensures r@ == selected_of(pipeline@), { unimplemented!() }
}
// the name a column brings along from its relation
pub open spec fn own_name(d: ColumnDecl) -> Option<String> {
    match d { ColumnDecl::RelationColumn(_, _, RelationColumn::Single(Some(n))) => Some(n), _ => None }
}
pub open spec fn is_star(d: ColumnDecl) -> bool { d is RelationColumn && d->RelationColumn_2 is Wildcard }
pub open spec fn named_col(c: RelationColumn) -> bool { c is Single && c->Single_0 is Some }
"""


def build(X):
    types = common_rq.rq_module(X, with_transform=True)
    cd = X.type_item(CONTEXT, "enum", "ColumnDecl").drop_attrs()

    # ---------------------------------------------------------------- ensure_column_name
    en = X.fn(CONTEXT, "ensure_column_name").pub_all()
    en.rewrite_re("R1", r"//[^\n]*\n", "\n", count=None, why="comments")
    en.rewrite_re("R5", r"&self\.column_decls\[&cid\]", "self.column_decls.index(&cid)", count=None, why="Index on the map of declarations (panics on a missing key: precondition)")
    n_or = len(re.findall(r"let entry = self\.column_names\.entry\(cid\);\s*(?:return )?Some\(entry\.or_insert_with\(\|\| ", en.text))
    en.rewrite_re("R8", r"let entry = self\.column_names\.entry\(cid\);\s*return Some\(entry\.or_insert_with\(\|\| ((?:[^()]|\([^()]*\))*)\)\);",
                  r"if !self.column_names.contains_key(&cid) { let verif_v = \1; self.column_names.insert(cid, verif_v); } return Some(self.column_names.get(&cid).unwrap());", count=None,
                  why="HashMap::entry(k).or_insert_with(|| e) desugared to its std definition")
    en.rewrite_re("R8", r"let entry = self\.column_names\.entry\(cid\);\s*Some\(entry\.or_insert_with\(\|\| ((?:[^()]|\([^()]*\))*)\)\)",
                  r"if !self.column_names.contains_key(&cid) { let verif_v = \1; self.column_names.insert(cid, verif_v); } Some(self.column_names.get(&cid).unwrap())", count=None,
                  why="HashMap::entry(k).or_insert_with(|| e) desugared to its std definition")
    if n_or < 1 or "or_insert_with" in en.text:
        raise ExtractionError("ensure_column_name: the `entry(cid).or_insert_with(|| ..)` statements are not where the unit expects them")
    en.rewrite_re("R5", r"\bname\.clone\(\)", "clone_string(name)", count=None, why="String::clone")
    en.rewrite_re("R6", r"\bself\.col_name\.gen\(\)", "self.col_name.gen()", count=None, why="NameGenerator::gen (shim)")
    en.ret_name("r")
    en.contract("""
        requires old(self).column_decls.view().contains_key(cid.0),
        ensures
            // naming one column touches no other column, and no declaration
            final(self).column_decls == old(self).column_decls
                && (forall|k: usize| k != cid.0 ==> (final(self).column_names.view().contains_key(k) == old(self).column_names.view().contains_key(k)
                    && (old(self).column_names.view().contains_key(k) ==> final(self).column_names.view()[k] == old(self).column_names.view()[k]))), // @EN1
            // a name that is recorded stays: it is never replaced by the column's own or by a generated one
            (old(self).column_names.view().contains_key(cid.0) && !is_star(old(self).column_decls.view()[cid.0]))
                ==> (final(self).column_names.view() == old(self).column_names.view() && r == Some(&old(self).column_names.view()[cid.0])), // @EN2
            // C09: a column that brings a name along from its relation is recorded under exactly that name
            (!old(self).column_names.view().contains_key(cid.0) && own_name(old(self).column_decls.view()[cid.0]) is Some)
                ==> (final(self).column_names.view().contains_key(cid.0) && final(self).column_names.view()[cid.0] == own_name(old(self).column_decls.view()[cid.0])->0
                     && r == Some(&final(self).column_names.view()[cid.0])), // @EN3
            // a star has no name
            is_star(old(self).column_decls.view()[cid.0]) ==> (r is None && final(self).column_names.view() == old(self).column_names.view()), // @EN4
            // anything else gets a generated name that no column carries
            (!old(self).column_names.view().contains_key(cid.0) && own_name(old(self).column_decls.view()[cid.0]) is None && !is_star(old(self).column_decls.view()[cid.0]))
                ==> (final(self).column_names.view().contains_key(cid.0) && !taken(final(self).column_names.view()[cid.0]@) && r == Some(&final(self).column_names.view()[cid.0])), // @EN5
    """)

    # ---------------------------------------------------------------- load_names
    ln = X.fn(CONTEXT, "load_names").pub_all()
    ln.rewrite_re("R6", r"pipeline: &\[SqlTransform\],", "pipeline: &Vec<SqlTransformShim>,", count=1, why="slice parameter as a reference to the vector; SqlTransform is opaque here")
    ln.rewrite_re("R5", r"assert_eq!\(output_cids\.len\(\), output_cols\.len\(\)\);", "assert_eq_len(output_cids.len(), output_cols.len());", count=1, why="assert_eq!: a call whose precondition is the equality")
    ln.rewrite_re("R11", r"for \(cid, col\) in zip\(output_cids\.iter\(\), output_cols\) \{",
                  "let mut output_cols = output_cols;\n        let ghost cols0 = output_cols@; let ghost names0 = self.column_names.view();\n        let mut verif_k: usize = 0;\n        while verif_k < output_cids.len()\n"
                  "            invariant verif_k <= output_cids@.len(), output_cids@.len() == cols0.len(), output_cols@.len() == cols0.len(), output_cids@ == selected_of(pipeline@),\n"
                  "                forall|j: int| verif_k <= j < cols0.len() ==> output_cols@[j] == cols0[j],\n"
                  "                self.column_decls == old(self).column_decls,\n"
                  "                forall|k: usize| loaded(names0, output_cids@, cols0, verif_k as int, k, self.column_names.view()), // @LN1i\n"
                  "            decreases output_cids@.len() - verif_k,\n        {\n"
                  "            let cid = &output_cids[verif_k]; let col = take_col(&mut output_cols, verif_k); verif_k = verif_k + 1;", count=1,
                  why="`for (cid, col) in zip(cids.iter(), cols)` as the index loop it is (pairs in order, up to the shorter length: the lengths are equal)")
    ln.insert_in_loop(1, "let ghost prev_names = self.column_names.view(); let ghost kk = verif_k as int;", """
            proof {
                let kn = kk + 1;
                assert forall|k: usize| #[trigger] loaded(names0, output_cids@, cols0, kn, k, self.column_names.view()) by { // @LN1i
                    if !(output_cids@[kk].0 == k && named_col(cols0[kk])) { lemma_loaded_congr(names0, output_cids@, cols0, kk, k, prev_names, self.column_names.view()); }
                }
            }
    """, "proof hint: one step of the loading")
    ln.contract("""
        requires selected_of(pipeline@).len() == output_cols@.len(),
        ensures
            // C05 / C09: position by position, the declared name of an output column is recorded for the id the pipeline outputs there (a later position wins for a repeated id);
            // every other id keeps what it had
            forall|k: usize| loaded(old(self).column_names.view(), selected_of(pipeline@), output_cols@, output_cols@.len() as int, k, final(self).column_names.view()), // @LN1
            final(self).column_decls == old(self).column_decls, // @LN2
    """)
    loaded = r"""
// the entry of id k after the first n (id, column) pairs have been loaded into names0
pub open spec fn loaded(names0: Map<usize, String>, cids: Seq<CId>, cols: Seq<RelationColumn>, n: int, k: usize, now: Map<usize, String>) -> bool
    decreases n
{
    if n <= 0 { now.contains_key(k) == names0.contains_key(k) && (names0.contains_key(k) ==> now[k] == names0[k]) }
    else if cids[n - 1].0 == k && named_col(cols[n - 1]) { now.contains_key(k) && now[k] == cols[n - 1]->Single_0->0 }
    else { loaded(names0, cids, cols, n - 1, k, now) }
}
pub proof fn lemma_loaded_congr(names0: Map<usize, String>, cids: Seq<CId>, cols: Seq<RelationColumn>, n: int, k: usize, a: Map<usize, String>, b: Map<usize, String>)
    requires loaded(names0, cids, cols, n, k, a), a.contains_key(k) == b.contains_key(k), a.contains_key(k) ==> a[k] == b[k],
    ensures loaded(names0, cids, cols, n, k, b),
    decreases n
{
    if n > 0 && !(cids[n - 1].0 == k && named_col(cols[n - 1])) { lemma_loaded_congr(names0, cids, cols, n - 1, k, a, b); }
}
"""
    # ---------------------------------------------------------------- register_compute
    rc = X.fn(CONTEXT, "register_compute").pub_all()
    rc.contract("""
        ensures
            // C16: the column is declared under its own id, as that computation; nothing else changes
            final(self).column_decls.view() == old(self).column_decls.view().insert(compute.id.0, ColumnDecl::Compute(Box::new(compute))) && final(self).column_names == old(self).column_names, // @RC1
    """)
    impl = "impl AnchorContext {\n" + en.text + "\n" + ln.text + "\n" + rc.text + "\n}\n"
    return PRELUDE + types + cd.text + "\n" + SHIMS + loaded + impl + "\n} // verus!\nfn main() {}\n"
