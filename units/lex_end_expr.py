"""Unit lex_end_expr: a literal word (`null`, `true`, `false`), a keyword or a number with a unit ends where a name cannot continue - in particular in front of every
operator character, with or without a space.

Table unit over the real combinator text (rows are generated from the source on every run):
  prqlc/prqlc-parser/src/lexer/mod.rs  end_expr(): the set of characters that may follow - either the `one_of("..")` white list (plus newline) or the predicate of
                                       `any().filter(|c: &char| PRED)`, whose text becomes the body of a spec function
"""
import re

from extract import ExtractionError

LEXER = "prqlc/prqlc-parser/src/lexer/mod.rs"

LABELS = []
FUNCTIONS = []
RLIMIT = 30

ASSUMED = [
    {"what": "chumsky: `choice((end(), .., P)).rewind()` succeeds in front of a character iff one of the alternatives accepts it; `one_of(s)` accepts the characters of s, "
             "`newline()` accepts \\n and \\r, `any().filter(p)` the characters p holds for; char::is_alphanumeric is, for the ASCII characters of the rows, "
             "[A-Za-z0-9] (ascii_alnum) plus the five non-ASCII letters of the rows, is_ascii_alphanumeric exactly [A-Za-z0-9]; the alternative `just(\"..\")` is not modelled (no row needs it)", "keys": []},
]
TRUSTED = [
    "oracle (C02): PRQL's operators need no space around them (`a==1`, `x+1` lex as three tokens), and `null` / `true` / `false` are literals wherever they are whole "
    "words: `null==a` is a null test and `null??1` picks 1 - so every operator / bracket / separator character must end such a word (rows EE.ends.*). "
    "A letter, a digit or an underscore must not (rows EE.continues.*): `nullable`, `true_x`, `null2` are names",
]

ENDS = {"eq": "=", "bang": "!", "lt": "<", "gt": ">", "amp": "&", "pipe": "|", "plus": "+", "minus": "-", "star": "*", "slash": "/", "percent": "%", "question": "?",
        "tilde": "~", "colon": ":", "lparen": "(", "rparen": ")", "lbracket": "[", "rbracket": "]", "lbrace": "{", "rbrace": "}", "comma": ",", "space": " ", "tab": "\\t",
        "newline": "\\n", "hash": "#"}
CONTINUES = {"a": "a", "Z": "Z", "digit": "7", "underscore": "_",
             # letters outside ASCII continue a bare name as well (ident_part: `c.is_alphabetic()` / `is_alphanumeric()`, unit interp_ident): `importé`, `funcție`, `nullж` are names
             "e_acute": "é", "t_comma": "ț", "cyrillic": "ж", "cjk": "日", "greek": "λ"}


def DYNAMIC_LABELS():
    return sorted(["EE.ends." + k for k in ENDS] + ["EE.continues." + k for k in CONTINUES])


def _lit(c):
    return "'\\''" if c == "'" else "'%s'" % c


def build(X):
    f = X.fn(LEXER, "end_expr")
    body = f.text
    m_filter = re.search(r"any\(\)\s*\.filter\(\|c: &char\|\s*(.*?)\)\s*\.to\(\(\)\)", body, re.S)
    m_oneof = re.search(r'one_of\("((?:[^"\\]|\\.)*)"\)', body)
    if m_filter:
        pred = " ".join(m_filter.group(1).split())
        pred = re.sub(r"\bc\.is_alphanumeric\(\)", "uni_alnum(*c)", pred)
        pred = re.sub(r"\bc\.is_alphabetic\(\)", "uni_alpha(*c)", pred)
        pred = re.sub(r"\bc\.is_ascii_alphanumeric\(\)", "ascii_alnum(*c)", pred)
        pred = re.sub(r"\bc\.is_ascii_alphabetic\(\)", "ascii_alpha(*c)", pred)
        pred = re.sub(r"\bc\.is_ascii_digit\(\)", "ascii_digit(*c)", pred)
        if re.search(r"\bc\.\w+\(", pred):
            raise ExtractionError("end_expr: the filter predicate uses a char method the unit has no characterization for: %s" % pred)
        accepts = pred
        f.rewrites.append({"rule": "table", "what": "predicate of `any().filter(|c: &char| ..)` taken as the body of spec fn accepts(c); char::is_alphanumeric / is_alphabetic / is_ascii_* -> their characterization on the characters of the rows"})
    elif m_oneof:
        chars = bytes(m_oneof.group(1), "utf-8").decode("unicode_escape")
        alts = ["*c == %s" % _lit({"\t": "\\t", "\n": "\\n", "\r": "\\r"}.get(ch, ch)) for ch in chars]
        if "newline()" in body:
            alts += ["*c == '\\n'", "*c == '\\r'"]
        accepts = " || ".join(alts)
        f.rewrites.append({"rule": "table", "what": "white list of `one_of(\"..\")` (+ newline()) taken as the body of spec fn accepts(c)"})
    else:
        raise ExtractionError("end_expr: neither `one_of(\"..\")` nor `any().filter(|c: &char| ..)` found")
    lines = ["", "#![allow(unused_imports, dead_code, unused_parens)]", "use vstd::prelude::*;", "verus! {",
             "pub open spec fn ascii_digit(c: char) -> bool { '0' <= c && c <= '9' }",
             "pub open spec fn ascii_alpha(c: char) -> bool { ('a' <= c && c <= 'z') || ('A' <= c && c <= 'Z') }",
             "pub open spec fn ascii_alnum(c: char) -> bool { ascii_alpha(c) || ascii_digit(c) }",
             "// the letters outside ASCII that the rows use (Unicode: all alphabetic): char::is_alphabetic / is_alphanumeric hold for them",
             "pub open spec fn row_letter(c: char) -> bool { %s }" % " || ".join("c == %s" % _lit(ch) for ch in ("é", "ț", "ж", "日", "λ")),
             "pub open spec fn uni_alpha(c: char) -> bool { ascii_alpha(c) || row_letter(c) }",
             "pub open spec fn uni_alnum(c: char) -> bool { ascii_alnum(c) || row_letter(c) }",
             "pub open spec fn accepts(c: &char) -> bool { %s }" % accepts]
    for k, ch in sorted(ENDS.items()):
        lines.append("proof fn ends_%s() { assert(accepts(&%s)); } // @EE.ends.%s" % (k, _lit(ch), k))
    for k, ch in sorted(CONTINUES.items()):
        lines.append("proof fn continues_%s() { assert(!accepts(&%s)); } // @EE.continues.%s" % (k, _lit(ch), k))
    lines += ["} // verus!", "fn main() {}", ""]
    return "\n".join(lines)


# ----------------------------------------------------------------------------- replay on the real compiler
SETUP = "create table t(a integer, b integer); insert into t values (null, 1), (2, 0), (3, 1);"
CASES = [
    ("from t\nfilter null==a\nselect {b}\n", [(1,)]),
    ("from t\nselect {v = null??7}\ntake 1\n", [(7,)]),
    ("from t\nfilter (a==null)\nselect {b}\n", [(1,)]),
    ("from t\nselect {v = a??0+1}\nsort v\n", [(1,), (2,), (3,)]),
    ("from t\nderive {nullable = 5, true_x = 6}\nselect {nullable, true_x}\ntake 1\n", [(5, 6)]),
    ("from t\nfilter (true||a==2)\nselect {b}\nsort b\n", None),
    # names that start with a keyword / literal word and go on with a letter outside ASCII are names
    ("from t\nderive {importé = a, funcție = b, nullж = 1}\nselect {importé, funcție, nullж}\nsort funcție\ntake 1\n", [(2, 0, 1)]),
]


def _try(src, exp):
    import replaylib
    ok, sql = replaylib.compile_prql(src, "sql.sqlite")
    if not ok:
        return {"input": src, "expected": exp, "observed": sql[:300], "failing": exp is not None or sql.startswith("PANIC"), "replay_kind": "rows"}
    if re.search(r'"(null|true|false)"', sql):
        return {"input": src, "expected": exp, "observed": sql[:300], "failing": True, "replay_kind": "rows"}
    ok2, rows = replaylib.sqlite_rows(SETUP, sql)
    rows = [tuple(r) for r in rows] if ok2 else rows
    return {"input": src, "expected": exp, "observed": rows if ok2 else "sqlite: %s %s" % (rows, sql[:200]), "failing": (not ok2) or (exp is not None and rows != exp), "replay_kind": "rows"}


def replay(failure):
    for src, exp in CASES:
        r = _try(src, exp)
        if r["failing"]:
            return r
    return {"failing": False}


def rerun(doc):
    exp = doc["expected"]
    return _try(doc["input"], [tuple(r) for r in exp] if exp is not None else None)


SWEEP_DOC = "`null` / `true` directly in front of an operator, and names that merely start with such a word: compiled by the real prqlc, executed on SQLite"


def sweep():
    out = []
    for src, exp in CASES:
        r = _try(src, exp)
        r["obligation"] = "lex_end_expr.EE.ends.eq"
        out.append(r)
    return out
