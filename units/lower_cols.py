"""Unit lower_cols: one Compute per resolved expression, with a fresh id, the window of the enclosing group and the mapping recorded.

Real code under contract:
  prqlc/prqlc/src/semantic/lowering.rs  Lowerer::declare_as_column (whole function)
"""
import re

import common_rq
from extract import ExtractionError

LOWERING = "prqlc/prqlc/src/semantic/lowering.rs"

LABELS = ["DC1", "DC2", "DC3", "DC4", "DC5", "DC6"]
FUNCTIONS = ["declare_as_column"]
RLIMIT = 80

ASSUMED = [
    {"what": "opaque external types", "keys": ["pub struct Opaque"]},
    {"what": "Lowerer is the shim {node_mapping, cid, window, pipeline} (the fields declare_as_column touches); HashMap<usize, LoweredTarget> is the shim NodeMap "
             "with a ghost Map view (get / insert); LoweredTarget::Input's payload is opaque; pl::Expr is the shim {kind, alias, id, needs_window}; "
             "Option<String>::clone, Option<rq::Window>::clone are the identity; `alias == alias_for` on Option<String> is equality of the texts; "
             "IdGenerator::gen has the contract proved in unit ids_names (IG1-3)",
     "keys": ["struct NodeMap", "fn view", "fn get", "fn insert", "struct PlExpr", "fn clone_opt_string", "fn clone_window", "fn opt_string_eq", "fn ident_name_of", "struct CidGen", "fn gen",
              "spec fn cid_num"]},
    {"what": "lower_expr (the recursive lowering of the expression) is external: it returns lower_result(..) and leaves the Lowerer in the state after_lower(..), which only "
             "appends to the pipeline, only moves the id generator forward and keeps the window", "keys": ["fn lower_expr", "spec fn after_lower", "spec fn lower_result"]},
]
TRUSTED = [
    "oracle (C16 / C04): lowering an expression that was lowered before returns the column it became and emits nothing; otherwise either the expression is a bare "
    "column reference (no new column) or exactly one Compute is appended whose id is fresh (never handed out before), whose window is the current window iff the "
    "expression needs one, and the node -> column mapping is recorded so the expression is never declared twice",
    "resolver: every expression reaching declare_as_column has an id (precondition)",
]

PRELUDE = r"""
#![allow(unused_imports, dead_code, unused_variables, unused_mut, unused_parens, non_snake_case)]
use vstd::prelude::*;
use std::result::Result::*;
verus! {
""" + common_rq.OPAQUE


SHIMS = r"""
use rq::{CId, Transform};
pub enum LoweredTarget { Compute(CId), Input(OpaqueT) }
#[verifier::external_body] pub struct NodeMap { _p: u8 }
impl NodeMap {
    pub uninterp spec fn view(&self) -> Map<usize, LoweredTarget>;
    #[verifier::external_body]
    pub fn get(&self, k: &usize) -> (r: Option<&LoweredTarget>)
        ensures match r { Some(t) => self.view().contains_key(*k) && *t == self.view()[*k], None => !self.view().contains_key(*k) },
    { unimplemented!() }
    #[verifier::external_body]
    pub fn insert(&mut self, k: usize, v: LoweredTarget) -> (r: Option<LoweredTarget>) ensures final(self).view() == old(self).view().insert(k, v), { unimplemented!() }
}
pub uninterp spec fn cid_num(c: CId) -> int;
pub struct CidGen { pub next_id: usize }
impl CidGen {
    #[verifier::external_body]
    pub fn gen(&mut self) -> (r: CId)
        requires old(self).next_id < usize::MAX,
        ensures cid_num(r) == old(self).next_id, final(self).next_id == old(self).next_id + 1,
    { unimplemented!() }
}
pub mod pl {
    use super::*;
    pub struct Expr { pub kind: OpaqueT, pub alias: Option<String>, pub id: Option<usize>, pub needs_window: bool }
}
pub type PlExpr = pl::Expr;
#[verifier::external_body] pub fn clone_opt_string(o: &Option<String>) -> (r: Option<String>) ensures r == *o, { unimplemented!() }
#[verifier::external_body] pub fn clone_window(o: &Option<rq::Window>) -> (r: Option<rq::Window>) ensures r == *o, { unimplemented!() }
#[verifier::external_body] pub fn opt_string_eq(a: &Option<String>, b: &Option<String>) -> (r: bool) { unimplemented!() }
#[verifier::external_body] pub fn ident_name_of(k: &OpaqueT) -> Option<String> { unimplemented!() }

pub struct Lowerer { pub node_mapping: NodeMap, pub cid: CidGen, pub window: Option<rq::Window>, pub pipeline: Vec<Transform> }
pub uninterp spec fn after_lower(l: Lowerer, e: PlExpr) -> Lowerer;
pub uninterp spec fn lower_result(l: Lowerer, e: PlExpr) -> rq::Expr;
pub open spec fn is_prefix(a: Seq<Transform>, b: Seq<Transform>) -> bool { a.len() <= b.len() && b.subrange(0, a.len() as int) == a }
pub open spec fn lower_arg(e: PlExpr) -> PlExpr { pl::Expr { needs_window: false, ..e } }
pub open spec fn mid_of(l: Lowerer, e: PlExpr) -> Lowerer { after_lower(l, lower_arg(e)) }
pub open spec fn fresh_case(l: Lowerer, e: PlExpr) -> bool { !(l.node_mapping.view().contains_key(e.id->0) && l.node_mapping.view()[e.id->0] is Compute) }
pub open spec fn one_more(l: Lowerer, e: PlExpr, fin: Lowerer, r: CId) -> bool {
    fin.pipeline@.len() == mid_of(l, e).pipeline@.len() + 1 && fin.pipeline@.drop_last() =~= mid_of(l, e).pipeline@
    && fin.pipeline@.last() is Compute && fin.pipeline@.last()->Compute_0.id == r
}
impl Lowerer {
    #[verifier::external_body]
    pub fn lower_expr(&mut self, expr: pl::Expr) -> (r: Result<rq::Expr, Error>)
        ensures
            r is Ok ==> (*final(self) == after_lower(*old(self), expr) && r->Ok_0 == lower_result(*old(self), expr)),
            r is Ok ==> (is_prefix(old(self).pipeline@, final(self).pipeline@) && final(self).cid.next_id >= old(self).cid.next_id && final(self).window == old(self).window),
    { unimplemented!() }
}
"""


def build(X):
    model = common_rq.rq_module(X)
    dc = X.fn(LOWERING, "declare_as_column").drop_logging().pub_all()
    dc.rewrite("R6", "Result<rq::CId>", "Result<rq::CId, Error>")
    dc.rewrite_re("R5", r"\bexpr_ast\.alias\.clone\(\)", "clone_opt_string(&expr_ast.alias)", count=None, why="Option<String>::clone")
    dc.rewrite_re("R5", r"expr_ast\.kind\.as_ident\(\)\.map\(\|x\| x\.name\.clone\(\)\)", "ident_name_of(&expr_ast.kind)", count=None,
                  why="enum_as_inner accessor + closure: the name of the identifier, if the expression is one")
    dc.rewrite_re("R5", r"\balias == alias_for\b", "opt_string_eq(&alias, &alias_for)", count=None, why="Option<String> equality")
    dc.rewrite_re("R5", r"\bself\.window\.clone\(\)", "clone_window(&self.window)", count=None, why="Option<rq::Window>::clone")
    dc.rewrite("R3", "mut expr_ast: pl::Expr,", "expr_ast0: pl::Expr,", why="`mut` parameter rebound by `let mut` (the contract names the entry value)")
    dc.insert_at_body_start("let mut expr_ast = expr_ast0;", "rebinding of the `mut` parameter")
    dc.ret_name("r")
    dc.contract("""
        requires expr_ast0.id is Some, old(self).cid.next_id < usize::MAX - 1,
            // the id generator of the state lower_expr leaves can still hand out an id
            mid_of(*old(self), expr_ast0).cid.next_id < usize::MAX,
        ensures
            // C16: an expression lowered before is the column it became; nothing is emitted for it again
            (r is Ok && old(self).node_mapping.view().contains_key(expr_ast0.id->0) && old(self).node_mapping.view()[expr_ast0.id->0] is Compute) ==> (
                r->Ok_0 == old(self).node_mapping.view()[expr_ast0.id->0]->Compute_0 && *final(self) == *old(self)), // @DC1
            // otherwise, with mid_of(..) the state lower_expr left:
            // the node -> column mapping is recorded
            (r is Ok && fresh_case(*old(self), expr_ast0)) ==>
                final(self).node_mapping.view() == mid_of(*old(self), expr_ast0).node_mapping.view().insert(expr_ast0.id->0, LoweredTarget::Compute(r->Ok_0)), // @DC2
            // no new column (a bare column reference), or exactly ONE Compute appended, carrying the returned id ..
            (r is Ok && fresh_case(*old(self), expr_ast0)) ==> (final(self).pipeline@ == mid_of(*old(self), expr_ast0).pipeline@ || one_more(*old(self), expr_ast0, *final(self), r->Ok_0)), // @DC3
            // .. that id is fresh: the next one of the generator, handed out exactly once
            (r is Ok && fresh_case(*old(self), expr_ast0) && final(self).pipeline@.len() == mid_of(*old(self), expr_ast0).pipeline@.len() + 1) ==> (
                cid_num(r->Ok_0) == mid_of(*old(self), expr_ast0).cid.next_id && final(self).cid.next_id == mid_of(*old(self), expr_ast0).cid.next_id + 1), // @DC4
            // C04: the Compute carries the current window iff the expression needs one, and the lowered expression itself
            (r is Ok && fresh_case(*old(self), expr_ast0) && final(self).pipeline@.len() == mid_of(*old(self), expr_ast0).pipeline@.len() + 1) ==> ({
                let c = final(self).pipeline@.last()->Compute_0;
                c.window == (if expr_ast0.needs_window { mid_of(*old(self), expr_ast0).window } else { None::<rq::Window> }) && c.is_aggregation == is_aggregation
                && c.expr == lower_result(*old(self), lower_arg(expr_ast0)) }), // @DC5
            // a windowed expression always becomes a column of its own
            (r is Ok && fresh_case(*old(self), expr_ast0) && expr_ast0.needs_window) ==> final(self).pipeline@.len() == mid_of(*old(self), expr_ast0).pipeline@.len() + 1, // @DC6
    """)
    impl = "impl Lowerer {\n" + dc.text + "\n}\n"
    return PRELUDE + model + SHIMS + impl + "\n} // verus!\nfn main() {}\n"


# ----------------------------------------------------------------------------- replay on the real compiler
def replay(failure):
    """the RQ that the lowering produces for a corpus of programs is closed: every column id is defined once, before it is used, and is visible where it is used (tools/rqcheck.py)"""
    import rqcheck
    for r in rqcheck.sweep(failure.get("obligation", "lower_cols.DC1")):
        if r["failing"]:
            return r
    return {"failing": False}


def rerun(doc):
    import rqcheck
    return rqcheck.rerun(doc)
