"""Shared data model: the real RQ / generic type definitions of /repo, extracted verbatim (attributes dropped, R2)
and laid out in the modules the extracted function text refers to (`rq::`, `generic::`), so that function bodies
need no path rewrites.  Types from outside the repo or never inspected by extracted text are `OpaqueT`."""

RQ_EXPR = "prqlc/prqlc/src/ir/rq/expr.rs"
RQ_IDS = "prqlc/prqlc/src/ir/rq/ids.rs"
RQ_MOD = "prqlc/prqlc/src/ir/rq/mod.rs"
RQ_TRANSFORM = "prqlc/prqlc/src/ir/rq/transform.rs"
IR_GENERIC = "prqlc/prqlc/src/ir/generic.rs"
P_GENERIC = "prqlc/prqlc-parser/src/generic.rs"
LR = "prqlc/prqlc-parser/src/lexer/lr.rs"

OPAQUE = r"""
#[verifier::external_body]
pub struct OpaqueT { _p: u8 }
#[verifier::external_body]
#[verifier::reject_recursive_types(T)]
pub struct Opaque<T> { _p: core::marker::PhantomData<T> }
#[verifier::external_body]
#[verifier::accept_recursive_types(T)]
pub struct OpaqueOf<T> { _p: core::marker::PhantomData<T> }
pub struct ErrorMarker; pub type Error = Opaque<ErrorMarker>;
pub struct SpanMarker; pub type Span = Opaque<SpanMarker>;
pub type ValueAndUnit = OpaqueT;
pub type JoinSide = OpaqueT;
"""

N_OPAQUE_TOKENS = 3   # external_body occurrences in OPAQUE (for the units' assumption counts)
OPAQUE_ASSUMPTION = {"what": "types from other crates or never inspected by the extracted text are opaque (OpaqueT, Opaque<T>: Error, Span, "
                             "ValueAndUnit, JoinSide, InterpolateItem, SwitchCase)", "count": N_OPAQUE_TOKENS}


def rq_module(X, with_transform=True, real_items=False):
    """Returns text of `pub mod generic {..}`, `pub mod rq {..}` and the parser's Literal."""
    lit = X.type_item(LR, "enum", "Literal").drop_attrs()
    rng = X.type_item(P_GENERIC, "struct", "Range").drop_attrs()
    csort = X.type_item(IR_GENERIC, "struct", "ColumnSort").drop_attrs()
    sdir = X.type_item(IR_GENERIC, "enum", "SortDirection").drop_attrs()
    wf = X.type_item(IR_GENERIC, "struct", "WindowFrame").drop_attrs()
    wk = X.type_item(IR_GENERIC, "enum", "WindowKind").drop_attrs()
    wf.rewrite("R6", "generic::Range<T>", "Range<T>", why="same module in the generated file")
    if real_items:
        ii = X.type_item(P_GENERIC, "enum", "InterpolateItem").drop_attrs()
        sc = X.type_item(P_GENERIC, "struct", "SwitchCase").drop_attrs()
        items_text = "\n" + ii.text + "\n" + sc.text + "\n}\n"
    else:
        items_text = "\npub type InterpolateItem<T> = OpaqueOf<T>;\npub type SwitchCase<T> = OpaqueOf<T>;\n}\n"
    generic = ("pub mod generic {\nuse super::*;\n" + "\n".join([rng.text, csort.text, sdir.text, wf.text, wk.text]) + items_text +
               "pub use generic::{Range, ColumnSort, SortDirection, WindowFrame, WindowKind};\n")
    cid = X.type_item(RQ_IDS, "struct", "CId").drop_attrs()
    tid = X.type_item(RQ_IDS, "struct", "TId").drop_attrs()
    cid.rewrite("R6", "pub struct CId(usize);", "pub struct CId(pub usize);", why="field visibility (spec access)")
    tid.rewrite("R6", "pub struct TId(usize);", "pub struct TId(pub usize);", why="field visibility (spec access)")
    for it in (cid, tid):
        it.text = "#[derive(Clone, Copy)]\n" + it.text
        it.rewrites.append({"rule": "R2", "what": "derive(Clone, Copy) re-attached (of the real derive list)"})
    e = X.type_item(RQ_EXPR, "struct", "Expr").drop_attrs()
    ek = X.type_item(RQ_EXPR, "enum", "ExprKind").drop_attrs()
    items = [cid.text, tid.text, e.text, ek.text,
             "pub type Range = generic::Range<Expr>;\npub type InterpolateItem = generic::InterpolateItem<Expr>;\n"
             "pub type SwitchCase = generic::SwitchCase<Expr>;"]
    if with_transform:
        tr = X.type_item(RQ_TRANSFORM, "enum", "Transform").drop_attrs()
        take = X.type_item(RQ_TRANSFORM, "struct", "Take").drop_attrs()
        comp = X.type_item(RQ_TRANSFORM, "struct", "Compute").drop_attrs()
        win = X.type_item(RQ_TRANSFORM, "struct", "Window").drop_attrs()
        tref = X.type_item(RQ_MOD, "struct", "TableRef").drop_attrs()
        rcol = X.type_item(RQ_MOD, "enum", "RelationColumn").drop_attrs()
        items += [tr.text, take.text, comp.text, win.text, tref.text, rcol.text]
    rq = "pub mod rq {\nuse super::*;\nuse super::generic::*;\n" + "\n".join(items) + "\n}\n"
    return lit.text + "\n" + generic + rq
