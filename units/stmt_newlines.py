"""Unit stmt_newlines: a declaration needs no line break of its own in front of it - whatever its kind - so the first declaration may stand directly under the header line.

Table unit over the real combinator text (like lex_end_expr / lex_backtick: the model is generated from the source on every run):
  prqlc/prqlc-parser/src/parser/stmt.rs     module_contents(): the statement `let stmt_kind = ..;` - `new_line().repeated()[.at_least(N)]` + either
                                            `.collect::<Vec<_>>().ignore_then(choice((..)))` or `.count().then(choice((..))).validate(|(new_lines, kind), extra, emit| { if COND { emit.. } kind })`;
                                            COND becomes the body of the spec function rejected(new_lines, kind)
  prqlc/prqlc-parser/src/parser/pr/stmt.rs  enum StmtKind (the variant names)
"""
import re

from extract import ExtractionError

STMT = "prqlc/prqlc-parser/src/parser/stmt.rs"
PR_STMT = "prqlc/prqlc-parser/src/parser/pr/stmt.rs"

LABELS = ["ST1", "ST2"]
FUNCTIONS = []
RLIMIT = 30

ASSUMED = [
    {"what": "chumsky: `new_line().repeated()` consumes any number of new-line tokens, `.at_least(N)` requires N of them; `.collect().ignore_then(p)` runs p behind them; "
             "`.count().then(p).validate(f)` hands f the number consumed and p's value, and an `emit.emit(..)` in f is a parse error of the program; a condition over `new_lines` "
             "(compared with integer literals) and `matches!(kind, StmtKind::X(..))` joined by ! && || is taken as it stands; any other shape: the unit does not decide (exit 2)", "keys": []},
]
TRUSTED = [
    "oracle (C18): `prql target:sql.x` + line break + PROGRAM must mean what PROGRAM means under the option: query_def consumes the line break that ends the header line, so the first "
    "declaration of PROGRAM is parsed with NO new line in front of it - it must be accepted there whatever its kind (module, type, import, let, pipeline)",
]


def build(X):
    f = X.fn(STMT, "module_contents")
    src = re.sub(r"//[^\n]*", "", f.text)
    m = re.search(r"let stmt_kind = (.*?);\n\s*\n", src, re.S) or re.search(r"let stmt_kind = (.*?\)\));", src, re.S)
    if not m:
        raise ExtractionError("module_contents: `let stmt_kind = ..;` not found")
    chain = "".join(m.group(1).split())
    en = X.type_item(PR_STMT, "enum", "StmtKind")
    variants = re.findall(r"^\s*(\w+)\s*[\({,]", en.text.split("{", 1)[1], re.M)
    if len(variants) < 3:
        raise ExtractionError("enum StmtKind: variants not recognised")
    mm = re.match(r"^new_line\(\)\.repeated\(\)(?:\.at_least\((\d+)\))?(.*)$", chain)
    if not mm:
        raise ExtractionError("module_contents: stmt_kind does not start with `new_line().repeated()`: %s" % chain[:120])
    at_least = int(mm.group(1) or 0)
    rest = mm.group(2)
    if re.match(r"^\.collect::<Vec<_>>\(\)\.ignore_then\(choice\(\(.*\)\)\)$", rest):
        rejected = "false"
    else:
        mv = re.match(r"^\.count\(\)\.then\(choice\(\(.*?\)\)\)\.validate\(\|\((\w+),(\w+)\),\w+,(\w+)\|\{(.*)\}\)$", rest)
        if not mv:
            raise ExtractionError("module_contents: stmt_kind has a shape the unit has no characterization for: %s" % rest[:160])
        n_var, k_var, emit_var, body = mv.groups()
        mb = re.match(r"^if(.*?)\{%s\.emit\(.*\);?\}%s$" % (re.escape(emit_var), re.escape(k_var)), body)
        if not mb:
            raise ExtractionError("module_contents: the validate closure of stmt_kind is not `if COND { emit.emit(..) } kind`")
        cond = mb.group(1)
        cond = re.sub(r"matches!\(%s,StmtKind::(\w+)(?:\(_\)|\{\.\.\})?\)" % re.escape(k_var), r"(kind is \1)", cond)
        cond = re.sub(r"\b%s\b" % re.escape(n_var), "new_lines", cond)
        left = re.sub(r"\(kind is \w+\)|new_lines|\d+|&&|\|\||==|!=|<=|>=|<|>|!|\(|\)", "", cond)
        if left:
            raise ExtractionError("module_contents: the condition of the validate closure uses something the unit has no characterization for: %s" % left[:80])
        rejected = cond.replace("&&", " && ").replace("||", " || ")
    ma = re.search(r"let annotation = (.*?);\n", src, re.S)
    if not ma:
        raise ExtractionError("module_contents: `let annotation = ..;` not found")
    achain = "".join(ma.group(1).split())
    mna = re.match(r"^new_line\(\)\.repeated\(\)(?:\.at_least\((\d+)\))?\.collect::<Vec<_>>\(\)\.ignore_then\(", achain)
    if not mna:
        raise ExtractionError("module_contents: annotation does not start with `new_line().repeated()[.at_least(N)].collect::<Vec<_>>().ignore_then(`: %s" % achain[:120])
    ann_at_least = int(mna.group(1) or 0)
    f.rewrites.append({"rule": "table", "what": "annotation read as: at least %d new line(s) in front of an annotation" % ann_at_least})
    f.rewrites.append({"rule": "table", "what": "stmt_kind read as: at least %d new line(s) in front of a statement; rejected(new_lines, kind) = %s" % (at_least, rejected)})
    lines = ["", "#![allow(unused_imports, dead_code, unused_parens)]", "use vstd::prelude::*;", "verus! {",
             "pub enum StmtKind { %s }" % ", ".join(variants),
             "pub open spec fn min_new_lines() -> int { %d }" % at_least,
             "pub open spec fn rejected(new_lines: int, kind: StmtKind) -> bool { %s }" % rejected,
             "// C18: directly under the header line (no new line of its own) every kind of declaration is accepted",
             "proof fn first_declaration(kind: StmtKind) ensures min_new_lines() == 0 && !rejected(0, kind), {} // @ST1",
             "pub open spec fn min_new_lines_annotation() -> int { %d }" % ann_at_least,
             "// .. and so is a declaration that carries an annotation (a recorded finding of the unchanged tree: the annotation asks for a line break of its own)",
             "proof fn first_annotation() ensures min_new_lines_annotation() == 0, {} // @ST2",
             "} // verus!", "fn main() {}", ""]
    return "\n".join(lines)
