"""Unit sort_infer: the sorting the SQL back end carries along a pipeline (to emit ORDER BY in front of LIMIT / DISTINCT ON, to hand to the consumers of a CTE and to the
final ORDER BY) is the sort PRQL defines to be in effect.

Real code under contract:
  prqlc/prqlc/src/sql/pq/postprocess.rs  SortingInference::fold_sql_transforms: the WHOLE body of `for mut transform in transforms { .. }` (one step of the inference),
                                         SortingInference::fold_sql_query: the statements that store a CTE's sorting for its later references
  prqlc/prqlc/src/sql/pq/ast.rs          enum SqlTransform, struct RelationExpr, enum RelationExprKind (verbatim)
"""
import re

import common_rq
from extract import ExtractionError, code_tokens, match_brace, find_block_open

POSTPROCESS = "prqlc/prqlc/src/sql/pq/postprocess.rs"
PQ_AST = "prqlc/prqlc/src/sql/pq/ast.rs"

LABELS = ["SI0", "SI1", "SI2", "SI3", "SI4", "SI5", "SI6", "SI7", "SI8", "CS1", "CS2", "SC1", "SC2", "SC3"]
FUNCTIONS = ["infer_step", "store_cte_sorting", "carry_sort_columns"]
RLIMIT = 120

ASSUMED = [
    {"what": "opaque external types", "keys": ["pub struct Opaque"]},
    {"what": "HashMap<TId, CteSorting> is the shim CteMap with a ghost Map view and the std contracts of get / remove / insert; Vec::clone_from, Vec::clear, "
             "`v.drain(..).collect()` (= the whole content, v left empty) and Vec<ColumnSort<CId>>::clone have their std meaning",
     "keys": ["struct CteMap", "fn view", "fn get", "fn remove", "fn insert", "fn vec_clone_from", "fn vec_drain_all", "fn clone_sorts", "fn vec_contains_cid", "fn emitted_sorts", "fn vec_extend_sorts"]},
    {"what": "CidRedirector::redirect_sorts(sorting, riid, anchor) is external: its result is the uninterpreted redirected(sorting, riid, anchor before the call); "
             "SortingInference::fold_sql_relation (the recursion into a sub-query) is external and unconstrained; SqlRelation and RIId are opaque; "
             "Context is the shim {anchor}",
     "keys": ["fn redirect_sorts", "spec fn redirected", "fn fold_sql_relation"]},
]
TRUSTED = [
    "oracle (C03, from the language reference: `sort` defines the order of the rows that follow; transforms keep it unless they say otherwise; `group` / aggregation and "
    "DISTINCT reset it; `join` keeps the order of its left input; `take` picks rows by position in that order): one step of the inference over the transforms of one SELECT "
    "pipeline must (SI1) start FROM a CTE with the sorting recorded for that CTE - and leave the record in place for the CTE's other consumers (SI0); (SI2) replace the sorting "
    "at an explicit Sort, which is not emitted here; (SI3) clear it at Distinct / Aggregate; (SI4) keep it across a Join unless it only served a DISTINCT ON; (SI5) emit, in "
    "front of a Take, the sort embedded in an unpartitioned take or else the sorting in effect, and keep the sorting; (SI6) emit the sorting in front of DISTINCT ON and mark it "
    "internal; (SI7) leave it alone at Select / Filter / Super; (SI8) emit every transform but Sort exactly once, after the Sort it may need",
    "oracle (C03 / C05, SC1-3): a CTE hands its sorting to its consumers by column id, so its SELECT must carry every sort column: the columns it already selects stay where "
    "they are, each missing sort column is appended once, nothing else is added",
    "the slices drop: the loop itself (the step is applied to each transform in order: for-loop over a Vec), the recursion into sub-queries, the tail of "
    "fold_sql_transforms (sort columns added to a CTE's SELECT; last_sorting), alias_last_sorting, the redirection of column ids",
]

PRELUDE = r"""
#![allow(unused_imports, dead_code, unused_variables, unused_mut, unused_parens, non_snake_case)]
use vstd::prelude::*;
use std::result::Result::*;
verus! {
""" + common_rq.OPAQUE

SHIMS = r"""
pub type RIId = OpaqueT;
pub type SqlRelation = OpaqueT;
pub type Sorting = Vec<ColumnSort<CId>>;
use rq::{CId, TId};
pub struct CteSorting { pub sorting: Sorting, pub from_distinct_on: bool }
#[verifier::external_body] pub struct CteMap { _p: u8 }
impl CteMap {
    pub uninterp spec fn view(&self) -> Map<TId, CteSorting>;
    #[verifier::external_body]
    pub fn get(&self, k: &TId) -> (r: Option<&CteSorting>)
        ensures match r { Some(v) => self.view().dom().contains(*k) && *v == self.view()[*k], None => !self.view().dom().contains(*k) },
    { unimplemented!() }
    #[verifier::external_body]
    pub fn remove(&mut self, k: &TId) -> (r: Option<CteSorting>)
        ensures
            final(self).view() == old(self).view().remove(*k),
            match r { Some(v) => old(self).view().dom().contains(*k) && v == old(self).view()[*k], None => !old(self).view().dom().contains(*k) },
    { unimplemented!() }
    #[verifier::external_body]
    pub fn insert(&mut self, k: TId, v: CteSorting) -> (r: Option<CteSorting>)
        ensures final(self).view() == old(self).view().insert(k, v),
    { unimplemented!() }
}
#[verifier::external_body] pub fn vec_clone_from<T>(a: &mut Vec<T>, b: &Vec<T>) ensures final(a)@ == b@, { unimplemented!() }
#[verifier::external_body] pub fn vec_drain_all<T>(v: &mut Vec<T>) -> (r: Vec<T>) ensures r@ == old(v)@, final(v)@.len() == 0, { unimplemented!() }
#[verifier::external_body] pub fn clone_sorts(v: &Vec<ColumnSort<CId>>) -> (r: Vec<ColumnSort<CId>>) ensures r@ == v@, { unimplemented!() }
#[verifier::external_body] pub fn vec_contains_cid(v: &Vec<CId>, c: &CId) -> (r: bool) ensures r == v@.contains(*c), { unimplemented!() }
#[verifier::external_body] pub fn emitted_sorts(Ghost(emitted): Ghost<Seq<ColumnSort<CId>>>) -> (r: Vec<ColumnSort<CId>>) ensures r@ == emitted, { unimplemented!() }
#[verifier::external_body] pub fn vec_extend_sorts(v: &mut Vec<ColumnSort<CId>>, w: &Vec<ColumnSort<CId>>) ensures final(v)@ == old(v)@ + w@, { unimplemented!() }
pub type Anchor = OpaqueT;
pub struct Context { pub anchor: Anchor }
pub uninterp spec fn redirected(s: Seq<ColumnSort<CId>>, riid: RIId, anchor: Anchor) -> Seq<ColumnSort<CId>>;
#[verifier::external_body]
pub fn redirect_sorts(s: Vec<ColumnSort<CId>>, riid: &RIId, anchor: &mut Anchor) -> (r: Vec<ColumnSort<CId>>) ensures r@ == redirected(s@, *riid, *old(anchor)), { unimplemented!() }
pub struct SortingInference {
    pub last_sorting: Sorting,
    pub last_sorting_from_distinct_on: bool,
    pub ctes_sorting: CteMap,
    pub main_relation: bool,
    pub ctx: Box<Context>,
}
impl SortingInference {
    #[verifier::external_body] pub fn fold_sql_relation(&mut self, rel: SqlRelation) -> (r: Result<SqlRelation, Error>) { unimplemented!() }
}
pub type Tr = SqlTransform<RelationExpr, ()>;
pub open spec fn is_sort_of(t: Tr, s: Seq<ColumnSort<CId>>) -> bool { t is Sort && t->Sort_0@ == s }
// the sorting recorded for a CTE (none recorded: unsorted)
pub open spec fn recorded(m: Map<TId, CteSorting>, tid: TId) -> Seq<ColumnSort<CId>> { if m.dom().contains(tid) { m[tid].sorting@ } else { Seq::empty() } }
pub open spec fn recorded_flag(m: Map<TId, CteSorting>, tid: TId) -> bool { m.dom().contains(tid) && m[tid].from_distinct_on }
pub open spec fn keeps_order(t: Tr) -> bool { t is Select || t is Filter || t is Super }
"""

def _clause(cond, label, comment):
    return "        // %s\n        match r { Err(_) => true, Ok((s, f)) => { %s } }, // @%s\n" % (comment, cond, label)


STEP_CONTRACT = "    ensures\n" + "".join([
    _clause("!(transform0 is From && transform0->From_0.kind is SubQuery) ==> final(self).ctes_sorting.view() == old(self).ctes_sorting.view()", "SI0",
            "a CTE's recorded sorting stays in place for its other consumers"),
    _clause("(transform0 is From && transform0->From_0.kind is Ref) ==> ("
            "s@ == redirected(recorded(old(self).ctes_sorting.view(), transform0->From_0.kind->Ref_0), transform0->From_0.riid, old(self).ctx.anchor) "
            "&& f == recorded_flag(old(self).ctes_sorting.view(), transform0->From_0.kind->Ref_0))", "SI1",
            "FROM a CTE: start with the sorting recorded for it (re-expressed in this instance's column ids)"),
    _clause("transform0 is Sort ==> (s@ == transform0->Sort_0@ && !f)", "SI2", "an explicit Sort replaces the sorting; it is a user's order, not DISTINCT ON's"),
    _clause("(transform0 is Distinct || transform0 is Aggregate) ==> (s@.len() == 0 && !f)", "SI3", "DISTINCT and aggregation reset the order"),
    _clause("transform0 is Join ==> (!f && s@ == (if flag0 { Seq::<ColumnSort<CId>>::empty() } else { sorting0@ }))", "SI4",
            "a join keeps the order of its left input - unless that order only served a DISTINCT ON"),
    _clause("transform0 is Take ==> (s@ == sorting0@ && f == flag0 && final(result)@.len() == old(result)@.len() + 2 "
            "&& is_sort_of(final(result)@[old(result)@.len() as int], "
            "if transform0->Take_0.partition@.len() == 0 && transform0->Take_0.sort@.len() > 0 { transform0->Take_0.sort@ } else { sorting0@ }))", "SI5",
            "take: ORDER BY its embedded sort (unpartitioned `sort | take`) or else the sorting in effect; the sorting stays in effect"),
    _clause("transform0 is DistinctOn ==> (s@ == sorting0@ && f && final(result)@.len() == old(result)@.len() + 2 "
            "&& is_sort_of(final(result)@[old(result)@.len() as int], sorting0@))", "SI6",
            "DISTINCT ON picks its row by the sorting in effect, which thereby becomes internal"),
    _clause("keeps_order(transform0) ==> (s@ == sorting0@ && f == flag0)", "SI7", "transforms that keep the order"),
    _clause("(transform0 is Sort ==> final(result)@ == old(result)@) "
            "&& (!(transform0 is Sort) ==> (final(result)@.len() > old(result)@.len() && final(result)@.subrange(0, old(result)@.len() as int) == old(result)@)) "
            "&& (!(transform0 is Sort || transform0 is From) ==> final(result)@.last() == transform0) "
            "&& ((transform0 is From && transform0->From_0.kind is Ref) ==> final(result)@.last() == transform0) "
            "&& (!(transform0 is Sort || transform0 is Take || transform0 is DistinctOn) ==> final(result)@.len() == old(result)@.len() + 1)", "SI8",
            "every transform but Sort is emitted, once, last; nothing already emitted changes"),
])


def build(X):
    model = common_rq.rq_module(X)
    st = X.type_item(PQ_AST, "enum", "SqlTransform").drop_attrs()
    st.rewrite_re("R6", r"pub enum SqlTransform<Rel = RIId, Super = rq::Transform>", "pub enum SqlTransform<Rel, Super>", count=1, why="default type parameters spelled out at the use sites")
    re_ = X.type_item(PQ_AST, "struct", "RelationExpr").drop_attrs()
    rek = X.type_item(PQ_AST, "enum", "RelationExprKind").drop_attrs()

    # ---- one step of the inference: body of the for loop of fold_sql_transforms
    f = X.fn(POSTPROCESS, "fold_sql_transforms", after="impl PqMapper<RelationExpr, RelationExpr, (), ()> for SortingInference")
    toks = code_tokens(f.text)
    k = next((i for i, t in enumerate(toks) if f.text[t[1]:t[2]] == "for"), None)
    if k is None:
        raise ExtractionError("fold_sql_transforms: the loop over the transforms was not found")
    head = f.text[toks[k][1]:toks[k + 6][2]]
    if not re.match(r"for mut transform in transforms\s*\{", f.text[toks[k][1]:toks[k][1] + 60]):
        raise ExtractionError("fold_sql_transforms: the loop is no longer `for mut transform in transforms { .. }` (found `%s`)" % head)
    b = find_block_open(f.text, toks, k + 1)
    e = match_brace(f.text, toks, b)
    body = f.text[toks[b][2]:toks[e][1]]
    f.name = "infer_step"
    f.text = body
    f.rewrites.append({"rule": "slice", "what": "body of `for mut transform in transforms { .. }` wrapped as fn infer_step(&mut self, transform, sorting, sorting_from_distinct_on, result) -> "
                       "Result<(sorting, sorting_from_distinct_on)>: the loop-carried locals are passed in and returned; `continue` becomes `return Ok((sorting, sorting_from_distinct_on))`"})
    f.drop_logging()
    n_cont = len(re.findall(r"\bcontinue;", f.text))
    f.rewrite_re("slice", r"\bcontinue;", "return Ok((sorting, sorting_from_distinct_on));", count=None, why="`continue` of the sliced loop")
    f.rewrite_re("R5", r"\b([\w.]+)\.clone_from\(&([\w.]+)\)", r"vec_clone_from(&mut \1, &\2)", count=None, why="Vec::clone_from")
    f.rewrite_re("R5", r"\b([\w.]+)\.drain\(\.\.\)\.collect\(\)", r"vec_drain_all(&mut \1)", count=None, why="`v.drain(..).collect()`")
    f.rewrite_re("R5", r"\b(take\.sort|sorting)\.clone\(\)", r"clone_sorts(&\1)", count=None, why="Vec<ColumnSort<CId>>::clone")
    f.rewrite_re("R5", r"CidRedirector::redirect_sorts\(", "redirect_sorts(", count=None, why="external: column id redirection")
    f.desugar_option_closures()
    f.text = ("impl SortingInference {\n"
              "pub fn infer_step(&mut self, transform0: Tr, sorting0: Sorting, flag0: bool, result: &mut Vec<Tr>) -> (r: Result<(Sorting, bool), Error>)\n"
              + STEP_CONTRACT +
              "{\n    let mut transform = transform0;\n    let mut sorting = sorting0;\n    let mut sorting_from_distinct_on = flag0;\n"
              + f.text + ";\n    Ok((sorting, sorting_from_distinct_on))\n}\n}\n")

    # ---- the record of a CTE's sorting
    cs = X.slice(POSTPROCESS, "fold_sql_query", "let sorting = self.last_sorting.drain(..).collect();", "self.ctes_sorting.insert(cte.tid, sorting);", name="store_cte_sorting",
                 after="impl PqFold for SortingInference")
    cs.drop_logging()
    cs.rewrite_re("R5", r"\b([\w.]+)\.drain\(\.\.\)\.collect\(\)", r"vec_drain_all(&mut \1)", count=None, why="`v.drain(..).collect()`")
    cs.rewrite_re("R6", r"\bcte\.tid\b", "tid", count=None, why="free variable of the slice")
    cs.text = ("impl SortingInference {\n"
               "pub fn store_cte_sorting(&mut self, tid: TId)\n"
               "    ensures\n"
               "        // C03: what the consumers of the CTE start from is the sorting its own pipeline ended with\n"
               "        final(self).ctes_sorting.view().dom() == old(self).ctes_sorting.view().dom().insert(tid)\n"
               "            && final(self).ctes_sorting.view()[tid].sorting@ == old(self).last_sorting@\n"
               "            && final(self).ctes_sorting.view()[tid].from_distinct_on == old(self).last_sorting_from_distinct_on, // @CS1\n"
               "        // the records of the other CTEs are untouched; the next pipeline starts unsorted\n"
               "        (forall|t: TId| t != tid && old(self).ctes_sorting.view().dom().contains(t) ==> final(self).ctes_sorting.view()[t] == old(self).ctes_sorting.view()[t])\n"
               "            && final(self).last_sorting@.len() == 0 && !final(self).last_sorting_from_distinct_on, // @CS2\n"
               "{\n    " + cs.text + "\n}\n}\n")
    cs.rewrites.append({"rule": "slice", "what": "statements `let sorting = self.last_sorting.drain(..).collect(); .. self.ctes_sorting.insert(cte.tid, sorting);` of fold_sql_query wrapped as "
                        "fn store_cte_sorting(&mut self, tid)"})
    # ---- a CTE's SELECT carries its sort columns
    sc = X.if_blocks(POSTPROCESS, "fold_sql_transforms", "if !self.main_relation {", name="carry_sort_columns", need_else=False,
                     after="impl PqMapper<RelationExpr, RelationExpr, (), ()> for SortingInference")[0]
    sc.drop_logging()
    sc.rewrite_re("R5", r"let select = result\.iter_mut\(\)\.find_map\(\|x\| x\.as_select_mut\(\)\)\.unwrap\(\);\n?", "", count=1,
                  why="the Select of the pipeline is a parameter of the slice (find_map over the emitted transforms)")
    mv = re.search(r"for (\w+) in &(\w+)\b", sc.text)
    if not mv:
        raise ExtractionError("fold_sql_transforms: the loop over the sort columns of a CTE (`for column_sort in &..`) was not found")
    V = mv.group(2)
    sc.rewrite_re("R3", r"for (\w+) in &%s\b" % V, r"for \1 in it: &%s" % V, count=1, why="iterator name for the loop invariant")
    sc.rewrite_re("R5", r"let mut (\w+) = result\s*\.iter\(\)\s*\.filter_map\(\|x\| x\.as_sort\(\)\)\s*\.flatten\(\)\s*\.cloned\(\)\s*\.collect_vec\(\);", r"let mut \1 = emitted_sorts(Ghost(emitted));", count=None,
                  why="iterator chain over the emitted transforms: the columns of the Sort transforms of this pipeline, in order (ghost parameter `emitted`)")
    sc.rewrite_re("R5", r"\b(\w+)\.extend\(sorting\.iter\(\)\.cloned\(\)\);", r"vec_extend_sorts(&mut \1, &sorting);", count=None, why="Vec::extend with the cloned elements")
    sc.rewrite_re("R5", r"\bselect\.contains\(&(\w+)\)", r"vec_contains_cid(select, &\1)", count=None, why="Vec<CId>::contains (derived PartialEq)")
    sc.text = ("pub fn carry_sort_columns(select: &mut Vec<CId>, sorting: Vec<ColumnSort<CId>>, Ghost(emitted): Ghost<Seq<ColumnSort<CId>>>)\n"
               "    ensures\n"
               "        // the columns selected before keep their places\n"
               "        final(select)@.len() >= old(select)@.len() && final(select)@.subrange(0, old(select)@.len() as int) == old(select)@, // @SC1\n"
               "        // every column an ORDER BY of this CTE mentions is selected: of the sorts emitted in it (in front of a Take / DISTINCT ON) and of the sorting handed to its consumers\n"
               "        forall|i: int| 0 <= i < (emitted + sorting@).len() ==> final(select)@.contains(#[trigger] (emitted + sorting@)[i].column), // @SC2\n"
               "        // what is appended are such columns that were missing, each once\n"
               "        forall|k: int| old(select)@.len() <= k < final(select)@.len() ==> ((exists|i: int| 0 <= i < (emitted + sorting@).len() && (emitted + sorting@)[i].column == #[trigger] final(select)@[k])\n"
               "            && !final(select)@.subrange(0, k).contains(final(select)@[k])), // @SC3\n"
               "{\n    " + sc.text + "\n}\n")
    sc.loop_contract(1, """
        invariant
            it.seq().len() == %(V)s@.len(),
            forall|k: int| 0 <= k < it.seq().len() ==> *(#[trigger] it.seq()[k]) == %(V)s@[k],
            it.index@ <= %(V)s@.len(),
            %(V)s@.len() <= (emitted + sorting@).len() && forall|i: int| 0 <= i < %(V)s@.len() ==> (#[trigger] %(V)s@[i]) == (emitted + sorting@)[(emitted + sorting@).len() - %(V)s@.len() + i],
            select@.len() >= old(select)@.len() && select@.subrange(0, old(select)@.len() as int) == old(select)@,
            forall|i: int| 0 <= i < it.index@ ==> select@.contains(#[trigger] %(V)s@[i].column),
            forall|k: int| old(select)@.len() <= k < select@.len() ==> ((exists|i: int| 0 <= i < %(V)s@.len() && %(V)s@[i].column == #[trigger] select@[k])
                && !select@.subrange(0, k).contains(select@[k])),
    """ % {"V": V}, fn_name="carry_sort_columns")
    sc.insert_in_loop(1, "let ghost prev_sel = select@;", """
        proof {
            let c = %(V)s@[it.index@ as int].column;
            assert(select@.contains(c)) by {
                if prev_sel.contains(c) { let j = choose|j: int| 0 <= j < prev_sel.len() && prev_sel[j] == c; assert(select@[j] == c); }
                else { assert(select@[select@.len() - 1] == c); }
            }
            assert forall|i: int| 0 <= i < it.index@ implies select@.contains(#[trigger] %(V)s@[i].column) by { // @SC2
                let x = %(V)s@[i].column;
                let j = choose|j: int| 0 <= j < prev_sel.len() && prev_sel[j] == x;
                assert(select@[j] == x);
            }
            assert forall|k: int| old(select)@.len() <= k < select@.len() implies ((exists|i: int| 0 <= i < %(V)s@.len() && %(V)s@[i].column == #[trigger] select@[k]) // @SC3
                    && !select@.subrange(0, k).contains(select@[k])) by {
                if k < prev_sel.len() { assert(select@[k] == prev_sel[k]); assert(select@.subrange(0, k) =~= prev_sel.subrange(0, k)); }
                else { assert(select@[k] == c); assert(select@.subrange(0, k) =~= prev_sel); }
            }
        }
    """ % {"V": V}, "ghost snapshot of the Select at the top of the body; proof hints at its end: witnesses for `contains` after a push", fn_name="carry_sort_columns")
    sc.rewrites.append({"rule": "slice", "what": "then-block of `if !self.main_relation { .. }` (tail of fold_sql_transforms) wrapped as fn carry_sort_columns(select, sorting)"})
    return (PRELUDE + model + "\n" + st.text + "\n" + re_.text + "\n" + rek.text + "\n" + SHIMS + f.text + "\n" + cs.text + "\n" + sc.text + "\n} // verus!\nfn main() {}\n")


# ----------------------------------------------------------------------------- replay on the real compiler
_A = [(1, 10, 1), (2, 20, 5), (3, 30, 2), (4, 40, 8), (5, 50, 3), (6, 60, 9), (7, 70, 4)]   # (id, x, y)
SETUP = "create table a(id integer, x integer, y integer);" + "".join("insert into a values (%d,%d,%d);" % r for r in _A)
_BYX = sorted(_A, key=lambda r: -r[1])
_HI = _BYX[:3]
_LO = [r for r in _BYX if r[2] > 3][:3]

CASES = [
    # a sorted let-table with two consumers: both start from its sorting (SI0 / SI1 / CS1)
    ("let s = (from a | select {id, x, y} | sort {-x})\nlet hi = (from s | take 3)\nlet lo = (from s | filter y > 3 | take 3)\nfrom hi\njoin lo (==id)\nselect {hi.id, hi.x, lo.y}\nsort {hi.id}\n",
     sorted((h[0], h[1], l[2]) for h in _HI for l in _LO if h[0] == l[0])),
    # the consumer of a sorted CTE takes by that order (SI1, SI5)
    ("let s = (from a | sort {-x})\nfrom s\ntake 2\nselect {id}\n", [(r[0],) for r in _BYX[:2]]),
    # filter / select keep the order (SI7), take uses it (SI5)
    ("from a\nsort {-x}\nfilter y > 1\nselect {id, x}\ntake 2\nselect {id}\n", [(r[0],) for r in [q for q in _BYX if q[2] > 1][:2]]),
    # a COMPUTED sort key of a take inside a CTE whose order is reset afterwards (group): the CTE must still select the key for its own ORDER BY (SC2)
    ("from a\nderive {c = 0 - x}\nsort c\ntake 2\nselect {y}\ngroup y (aggregate {n = count this})\nsort y\n", sorted((y, 1) for (_i, _x, y) in _BYX[:2])),
    # an explicit sort replaces the order (SI2)
    ("from a\nsort {-x}\nsort {y, id}\ntake 3\nselect {id}\n", [(r[0],) for r in sorted(_A, key=lambda r: (r[2], r[0]))[:3]]),
]


def _try(src, exp):
    import replaylib
    ok, sql = replaylib.compile_prql(src, "sql.sqlite")
    if not ok:
        return {"input": src, "expected": [list(r) for r in exp], "observed": sql[:400], "failing": sql.startswith("PANIC"), "replay_kind": "rows"}
    ok2, rows = replaylib.sqlite_rows(SETUP, sql)
    if not ok2:
        return {"input": src, "expected": [list(r) for r in exp], "observed": "sqlite error: %s" % rows, "failing": True, "replay_kind": "rows", "sql": sql}
    rows = [tuple(r) for r in rows]
    return {"input": src, "expected": [list(r) for r in exp], "observed": [list(r) for r in rows], "failing": rows != list(exp), "replay_kind": "rows", "sql": sql}


def replay(failure):
    for src, exp in CASES:
        r = _try(src, exp)
        if r["failing"]:
            return r
    return {"failing": False}


def rerun(doc):
    return _try(doc["input"], [tuple(r) for r in doc["expected"]])


SWEEP_DOC = ("a sorted let-table consumed by two pipelines, a consumer that takes from a sorted CTE, filter / select between sort and take, two sorts in a row: compiled by the real "
             "prqlc, run on SQLite, rows compared with the rows computed from the table in Python")


def sweep():
    out = []
    for src, exp in CASES:
        r = _try(src, exp)
        r["obligation"] = "sort_infer.SI1"
        out.append(r)
    return out
