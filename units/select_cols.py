"""Unit select_cols: the columns a (prefix of a) pipeline outputs, as the SQL back end computes them.

Real code under contract:
  prqlc/prqlc/src/sql/pq/context.rs  AnchorContext::determine_select_columns (whole, recursive)
  prqlc/prqlc/src/sql/pq/ast.rs      enum SqlTransform (verbatim)
"""
import re

import common_rq
from extract import ExtractionError

CONTEXT = "prqlc/prqlc/src/sql/pq/context.rs"
PQ_AST = "prqlc/prqlc/src/sql/pq/ast.rs"

LABELS = ["DS1", "DS2"]
FUNCTIONS = ["determine_select_columns"]
RLIMIT = 120

ASSUMED = [
    {"what": "opaque external types", "keys": ["pub struct Opaque"]},
    {"what": "AnchorContext is the skeleton {relation_instances}; HashMap<RIId, RelationInstance> is the shim InstMap: get(riid) is Some for a registered instance and gives its "
             "table_ref columns (instance_cids(), uninterpreted); `columns.iter().map(|(_, cid)| *cid).collect()` / `cols.extend(..map..)` are cids_of() / extend_cids(); "
             "Vec<CId>::clone and `[a.clone(), b.clone()].concat()` keep / concatenate the elements; slice::split_last is Some((last, rest)) for a non-empty slice",
     "keys": ["struct InstMap", "fn get", "spec fn registered", "spec fn instance_cids", "fn cids_of", "fn extend_cids", "fn clone_cids", "fn concat2", "fn split_last"]},
]
TRUSTED = [
    "oracle (C05): the columns a pipeline outputs are determined by its LAST column-defining transform: a Select outputs exactly its list, an Aggregate its partition columns "
    "followed by its computed columns, a From the columns of its relation instance, a Join what came before it followed by the columns of the joined instance; every other "
    "transform (filter, sort, take, compute, distinct, set operations ..) outputs what the pipeline in front of it outputs; the empty pipeline outputs nothing",
    "precondition (not verified): every relation instance a From / Join mentions is registered in the context (else `.unwrap()` panics)",
]

PRELUDE = r"""
#![allow(unused_imports, dead_code, unused_variables, unused_mut, unused_parens, non_snake_case)]
use vstd::prelude::*;
verus! {
""" + common_rq.OPAQUE + r"""
#[derive(Clone, Copy)]
pub struct RIId(pub usize);
"""

SHIMS = r"""
use rq::{CId, Transform};
pub type T = SqlTransform<RIId, Transform>;
pub struct TableRefShim { pub columns: Vec<(rq::RelationColumn, CId)> }
pub struct RelationInstance { pub table_ref: TableRefShim }
#[verifier::external_body] pub struct InstMap { _p: u8 }
pub uninterp spec fn registered(m: InstMap, r: RIId) -> bool;
pub uninterp spec fn instance_cids(m: InstMap, r: RIId) -> Seq<CId>;
pub open spec fn cids_spec(cols: Seq<(rq::RelationColumn, CId)>) -> Seq<CId> { cols.map_values(|p: (rq::RelationColumn, CId)| p.1) }
impl InstMap {
    #[verifier::external_body]
    pub fn get(&self, r: &RIId) -> (o: Option<&RelationInstance>)
        ensures o is Some <==> registered(*self, *r), o is Some ==> cids_spec(o->0.table_ref.columns@) == instance_cids(*self, *r),
    { unimplemented!() }
}
pub struct AnchorContext { pub relation_instances: InstMap }
#[verifier::external_body] pub fn cids_of(cols: &Vec<(rq::RelationColumn, CId)>) -> (r: Vec<CId>) ensures r@ == cids_spec(cols@), { unimplemented!() }
#[verifier::external_body] pub fn extend_cids(v: &mut Vec<CId>, cols: &Vec<(rq::RelationColumn, CId)>) ensures final(v)@ == old(v)@ + cids_spec(cols@), { unimplemented!() }
#[verifier::external_body] pub fn clone_cids(v: &Vec<CId>) -> (r: Vec<CId>) ensures r@ == v@, { unimplemented!() }
#[verifier::external_body] pub fn concat2(a: Vec<CId>, b: Vec<CId>) -> (r: Vec<CId>) ensures r@ == a@ + b@, { unimplemented!() }
#[verifier::external_body]
pub fn split_last(s: &[T]) -> (r: Option<(&T, &[T])>)
    ensures r is Some <==> s@.len() > 0, match r { Some((l, rest)) => *l == s@.last() && rest@ == s@.drop_last(), None => true },
{ unimplemented!() }

// what a pipeline outputs
pub open spec fn all_registered(m: InstMap, p: Seq<T>) -> bool {
    forall|i: int| 0 <= i < p.len() ==> ((#[trigger] p[i] is From ==> registered(m, p[i]->From_0)) && (p[i] is Join ==> registered(m, p[i]->Join_with)))
}
pub open spec fn out_cols(m: InstMap, p: Seq<T>) -> Seq<CId>
    decreases p.len()
{
    if p.len() == 0 { Seq::empty() } else {
        let last = p.last();
        if last is From { instance_cids(m, last->From_0) }
        else if last is Join { out_cols(m, p.drop_last()) + instance_cids(m, last->Join_with) }
        else if last is Super && last->Super_0 is Select { last->Super_0->Select_0@ }
        else if last is Super && last->Super_0 is Aggregate { last->Super_0->Aggregate_partition@ + last->Super_0->Aggregate_compute@ }
        else { out_cols(m, p.drop_last()) }
    }
}
"""


def build(X):
    model = common_rq.rq_module(X)
    st = X.type_item(PQ_AST, "enum", "SqlTransform").drop_attrs()
    st.rewrite_re("R6", r"pub enum SqlTransform<Rel = RIId, Super = rq::Transform>", "pub enum SqlTransform<Rel, Super>", count=1, why="default type parameters spelled out at the use sites")
    f = X.fn(CONTEXT, "determine_select_columns").pub_all()
    f.rewrite_re("R6", r"pipeline: &\[SqlTransform\]", "pipeline: &[T]", count=1, why="default type parameters spelled out")
    f.rewrite_re("R5", r"\bpipeline\.split_last\(\)", "split_last(pipeline)", count=None, why="slice::split_last")
    f.rewrite_re("R5", r"rel\.table_ref\.columns\.iter\(\)\.map\(\|\(_, cid\)\| \*cid\)\.collect\(\)", "cids_of(&rel.table_ref.columns)", count=None, why="iterator chain: the column ids of a table reference")
    f.rewrite_re("R5", r"cols\.extend\(with\.iter\(\)\.map\(\|\(_, cid\)\| \*cid\)\)", "extend_cids(&mut cols, with)", count=None, why="iterator chain: the column ids of a table reference")
    f.rewrite_re("R5", r"=> cols\.clone\(\),", "=> clone_cids(cols),", count=None, why="Vec<CId>::clone")
    f.rewrite_re("R5", r"\[partition\.clone\(\), compute\.clone\(\)\]\.concat\(\)", "concat2(clone_cids(partition), clone_cids(compute))", count=None, why="concatenation of two cloned vectors")
    f.ret_name("r")
    f.contract("""
        requires all_registered(self.relation_instances, pipeline@),
        ensures
            r@ == out_cols(self.relation_instances, pipeline@), // @DS1
        decreases pipeline@.len(),
    """)
    f.insert_at_body_start("proof { assert(pipeline@.len() > 0 ==> all_registered(self.relation_instances, pipeline@.drop_last())); } // @DS2", "proof hint: the precondition holds for the shorter pipeline")
    return PRELUDE + model + "\n" + st.text + "\n" + SHIMS + "impl AnchorContext {\n" + f.text + "\n}\n} // verus!\nfn main() {}\n"


# ----------------------------------------------------------------------------- replay on the real compiler + SQLite: the column ORDER of a pipeline prefix matters where it is
# consumed by position - the recursive CTE of `loop` binds the columns of its step to the columns of the prefix by position
SETUP = ("create table emp(id integer, boss integer); create table dept(emp_id integer, floor integer); create table sal(emp_id integer, amount integer);"
         "insert into emp values (1, 0), (2, 1); insert into dept values (1, 7), (2, 9); insert into sal values (1, 40), (2, 300);")
CASES = [
    ("from emp\nselect {id, boss}\njoin d = (from dept | select {emp_id, floor}) (id == d.emp_id)\njoin s = (from sal | select {emp_id, amount}) (id == s.emp_id)\n"
     "loop (\n  filter amount < 100\n  select {id, boss, d_emp = d.emp_id, floor, s_emp = s.emp_id, amount = amount * 2}\n)\nsort {id, amount}\n",
     [(1, 0, 1, 7, 1, 40), (1, 0, 1, 7, 1, 80), (1, 0, 1, 7, 1, 160), (2, 1, 2, 9, 2, 300)]),
    ("from emp\nselect {id, boss}\njoin d = (from dept | select {emp_id, floor}) (id == d.emp_id)\nloop (\n  filter floor < 9\n  select {id, boss, emp_id = d.emp_id, floor = floor + 1}\n)\nsort {id, floor}\n",
     [(1, 0, 1, 7), (1, 0, 1, 8), (1, 0, 1, 9), (2, 1, 2, 9)]),
]


def _try(src, exp):
    import sqlite3
    import replaylib
    ok, sql = replaylib.compile_prql(src, "sql.sqlite")
    if not ok:
        return {"input": src, "expected": [list(r) for r in exp], "observed": sql[:300], "failing": True, "replay_kind": "rows"}
    con = sqlite3.connect(":memory:")
    con.executescript(SETUP)
    ticks = [0]

    def guard():        # a wrongly bound recursive step may never terminate
        ticks[0] += 1
        return 1 if ticks[0] > 2000 else 0
    con.set_progress_handler(guard, 10000)
    try:
        rows = [tuple(r) for r in con.execute(sql).fetchall()]
        got = [list(r) for r in rows]
    except Exception as e:
        rows, got = None, "sqlite error: %r\n%s" % (e, sql[:300])
    return {"input": src, "expected": [list(r) for r in exp], "observed": got, "failing": rows != exp, "replay_kind": "rows", "sql": sql}


def replay(failure):
    for src, exp in CASES:
        r = _try(src, exp)
        if r["failing"]:
            return r
    return {"failing": False}


def rerun(doc):
    return _try(doc["input"], [tuple(r) for r in doc["expected"]])


SWEEP_DOC = "`loop` after one and after two joins (the step's columns are bound to the prefix's columns by position): compiled for SQLite by the real prqlc and executed"


def sweep():
    out = []
    for src, exp in CASES:
        r = _try(src, exp)
        r["obligation"] = "select_cols.DS1"
        out.append(r)
    return out
