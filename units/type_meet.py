"""Unit type_meet: the intersection of two types is computed without panicking.

Real code under contract:
  prqlc/prqlc/src/semantic/resolver/types.rs      type_intersection (whole function), maybe_type_intersection
  prqlc/prqlc-parser/src/parser/pr/types.rs       struct Ty, enum TyKind, enum TyTupleField (verbatim)
"""
import re

import common_rq

TYPES_RS = "prqlc/prqlc/src/semantic/resolver/types.rs"
PR_TYPES = "prqlc/prqlc-parser/src/parser/pr/types.rs"

LABELS = ["TI1"]
FUNCTIONS = ["type_intersection", "maybe_type_intersection"]
RLIMIT = 60

ASSUMED = [
    {"what": "opaque external types (Ident, PrimitiveSet, TyFunc, Span)", "keys": ["pub struct Opaque"]},
    {"what": "derived PartialEq on TyKind is the uninterpreted tykind_eq(); Ty::new(kind) builds a type of that kind; type_intersection_of_tuples is external; "
             "todo!() is a panic (shim: a function whose precondition is false)",
     "keys": ["fn tykind_eq_fn", "spec fn tykind_eq", "fn ty_new", "fn type_intersection_of_tuples", "fn todo_panics"]},
]
TRUSTED = [
    "oracle (C12): resolving `append` / a case expression / a function call computes the intersection of the operand types; for every pair of types the function "
    "returns (a value or, through its callers, an error) - it never panics",
]

PRELUDE = r"""
#![allow(unused_imports, dead_code, unused_variables, unused_mut, unused_parens, non_snake_case)]
use vstd::prelude::*;
verus! {
""" + common_rq.OPAQUE.replace("pub struct SpanMarker; pub type Span = Opaque<SpanMarker>;", "#[derive(Clone, Copy)]\npub struct Span { pub start: usize, pub end: usize, pub source_id: u16 }") + r"""
pub type Ident = OpaqueT; pub type PrimitiveSet = OpaqueT; pub type TyFunc = OpaqueT;
"""

SHIMS = r"""
pub uninterp spec fn tykind_eq(a: TyKind, b: TyKind) -> bool;
#[verifier::external_body] pub fn tykind_eq_fn(a: &TyKind, b: &TyKind) -> (r: bool) ensures r == tykind_eq(*a, *b), { unimplemented!() }
#[verifier::external_body] pub fn ty_new(kind: TyKind) -> (r: Ty) ensures r.kind == kind, { unimplemented!() }
#[verifier::external_body] pub fn type_intersection_of_tuples(a: Vec<TyTupleField>, b: Vec<TyTupleField>) -> Ty { unimplemented!() }
// `todo!()` / `unimplemented!()` / `panic!()` reached = the program panics: nothing satisfies the precondition
#[verifier::external_body] pub fn todo_panics() -> Ty requires false, { unimplemented!() }
"""


def build(X):
    ty = X.type_item(PR_TYPES, "struct", "Ty").drop_attrs()
    tk = X.type_item(PR_TYPES, "enum", "TyKind").drop_attrs()
    tf = X.type_item(PR_TYPES, "enum", "TyTupleField").drop_attrs()
    ti = X.fn(TYPES_RS, "type_intersection").pub_all()
    ti.rewrite_re("R5", r"\ba_kind == b_kind\b", "tykind_eq_fn(&a_kind, &b_kind)", count=None, why="derived PartialEq on TyKind")
    ti.rewrite_re("R5", r"\bTy::new\(", "ty_new(", count=None, why="Ty::new")
    ti.rewrite_re("R5", r"\b(todo|unimplemented)!\(\)", "todo_panics()", count=None, why="todo!() is a panic")
    ti.ret_name("r")
    ti.contract("""
        ensures true, // @TI1
        decreases a,
    """)
    mt = X.fn(TYPES_RS, "maybe_type_intersection").pub_all()
    return PRELUDE + ty.text + "\n" + tk.text + "\n" + tf.text + "\n" + SHIMS + ti.text + "\n" + mt.text + "\n} // verus!\nfn main() {}\n"


# ----------------------------------------------------------------------------- replay on the real compiler
def _try(src):
    import replaylib
    ok, out = replaylib.compile_prql(src)
    return {"input": src, "expected": "SQL or a list of errors (no panic)", "observed": out[:300], "failing": (not ok) and out.startswith("PANIC"), "replay_kind": "compile"}


def replay(failure):
    for src in ['from a\nselect {x = 1}\nappend (from b | select {x = "s"})\n', "from a\nselect {x = 1}\nappend (from b | select {x = [1, 2]})\n"]:
        r = _try(src)
        if r["failing"]:
            return r
    return {"failing": False}


def rerun(doc):
    return _try(doc["input"])


SWEEP_DOC = "append of relations whose column types differ (int / text / array): compiled by the real prqlc; SQL or errors are expected, never a panic"


def sweep():
    out = []
    for src in ['from a\nselect {x = 1}\nappend (from b | select {x = "s"})\n', "from a\nselect {x = 1}\nappend (from b | select {x = 2})\n",
                "from a\nselect {x = 1}\nappend (from b | select {x = [1, 2]})\n", "from a\nselect {x = 1.5}\nappend (from b | select {x = 2})\n"]:
        r = _try(src)
        r["obligation"] = "type_meet.type_intersection.precondition"
        out.append(r)
    return out
