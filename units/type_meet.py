"""Unit type_meet: the intersection of two types is computed without panicking.

Real code under contract:
  prqlc/prqlc/src/semantic/resolver/types.rs      type_intersection (whole function), maybe_type_intersection
  prqlc/prqlc-parser/src/parser/pr/types.rs       struct Ty, enum TyKind, enum TyTupleField (verbatim)
"""
import re

import common_rq

TYPES_RS = "prqlc/prqlc/src/semantic/resolver/types.rs"
PR_TYPES = "prqlc/prqlc-parser/src/parser/pr/types.rs"

LABELS = ["TI1", "IR1", "ST1", "ST2", "VT1"]
FUNCTIONS = ["type_intersection", "maybe_type_intersection", "is_relation", "is_super_type_of", "is_super_type_of_opt", "validate_type"]
RLIMIT = 60

ASSUMED = [
    {"what": "opaque external types (Ident, PrimitiveSet, TyFunc, Span)", "keys": ["pub struct Opaque"]},
    {"what": "derived PartialEq on TyKind is the uninterpreted tykind_eq(); Ty::new(kind) builds a type of that kind; type_intersection_of_tuples is external; "
             "todo!() is a panic (shim: a function whose precondition is false)",
     "keys": ["fn tykind_eq_fn", "spec fn tykind_eq", "fn ty_new", "fn type_intersection_of_tuples", "fn todo_panics"]},
    {"what": "is_super_type_of_kind (the structural comparison of two type kinds) is external: super_kind(a, b) is uninterpreted; enum_as_inner's is_array() / is_function() test the variant; "
             "compose_type_error is opaque; Resolver is an empty shim (validate_type does not touch it)",
     "keys": ["fn is_super_type_of_kind", "spec fn super_kind", "fn is_array", "fn is_function", "fn compose_type_error", "struct Resolver"]},
]
TRUSTED = [
    "oracle (C12): resolving `append` / a case expression / a function call computes the intersection of the operand types; for every pair of types the function "
    "returns (a value or, through its callers, an error) - it never panics",
    "oracle (C10): an expression is accepted where a type is expected only if the expected type is a super type of the found one: two relations (their columns are not compared), or "
    "kinds that compare structurally - and, for a DIRECT argument only, an expected array with anything but a function (the documented hack for window functions).  Inside the "
    "comparison of two function types (`transform = func relation -> relation` against the pipeline given to group / window / loop) there is no such exception: a function "
    "that returns a scalar is not a transform",
]

PRELUDE = r"""
#![allow(unused_imports, dead_code, unused_variables, unused_mut, unused_parens, non_snake_case)]
use vstd::prelude::*;
verus! {
""" + common_rq.OPAQUE.replace("pub struct SpanMarker; pub type Span = Opaque<SpanMarker>;", "#[derive(Clone, Copy)]\npub struct Span { pub start: usize, pub end: usize, pub source_id: u16 }") + r"""
pub type Ident = OpaqueT; pub type PrimitiveSet = OpaqueT; pub type TyFunc = OpaqueT;
"""

SHIMS = r"""
pub uninterp spec fn tykind_eq(a: TyKind, b: TyKind) -> bool;
#[verifier::external_body] pub fn tykind_eq_fn(a: &TyKind, b: &TyKind) -> (r: bool) ensures r == tykind_eq(*a, *b), { unimplemented!() }
#[verifier::external_body] pub fn ty_new(kind: TyKind) -> (r: Ty) ensures r.kind == kind, { unimplemented!() }
#[verifier::external_body] pub fn type_intersection_of_tuples(a: Vec<TyTupleField>, b: Vec<TyTupleField>) -> Ty { unimplemented!() }
// `todo!()` / `unimplemented!()` / `panic!()` reached = the program panics: nothing satisfies the precondition
#[verifier::external_body] pub fn todo_panics() -> Ty requires false, { unimplemented!() }
pub uninterp spec fn super_kind(a: TyKind, b: TyKind) -> bool;
#[verifier::external_body] pub fn is_super_type_of_kind(a: &TyKind, b: &TyKind) -> (r: bool) ensures r == super_kind(*a, *b), { unimplemented!() }
impl TyKind {
    #[verifier::external_body] pub fn is_array(&self) -> (r: bool) ensures r == (*self is Array), { unimplemented!() }
    #[verifier::external_body] pub fn is_function(&self) -> (r: bool) ensures r == (*self is Function), { unimplemented!() }
}
#[verifier::external_body] pub fn compose_type_error<F>(found: &Ty, expected: &Ty, who: &F) -> Error { unimplemented!() }
pub struct Resolver { pub rest: OpaqueT }
pub open spec fn rel(t: Ty) -> bool { t.kind is Array && t.kind->Array_0 is Some && t.kind->Array_0->0.kind is Tuple }
pub open spec fn is_super(sup: Ty, sub: Ty) -> bool { (rel(sup) && rel(sub)) || super_kind(sup.kind, sub.kind) }
"""


def build(X):
    ty = X.type_item(PR_TYPES, "struct", "Ty").drop_attrs()
    tk = X.type_item(PR_TYPES, "enum", "TyKind").drop_attrs()
    tf = X.type_item(PR_TYPES, "enum", "TyTupleField").drop_attrs()
    ti = X.fn(TYPES_RS, "type_intersection").pub_all()
    ti.rewrite_re("R5", r"\ba_kind == b_kind\b", "tykind_eq_fn(&a_kind, &b_kind)", count=None, why="derived PartialEq on TyKind")
    ti.rewrite_re("R5", r"\bTy::new\(", "ty_new(", count=None, why="Ty::new")
    ti.rewrite_re("R5", r"\b(todo|unimplemented)!\(\)", "todo_panics()", count=None, why="todo!() is a panic")
    ti.ret_name("r")
    ti.contract("""
        ensures true, // @TI1
        decreases a,
    """)
    ir = X.fn(PR_TYPES, "is_relation", after="impl Ty").pub_all()
    ir.ret_name("r")
    ir.contract("""
        ensures r == rel(*self), // @IR1
    """)
    st = X.fn(TYPES_RS, "is_super_type_of").pub_all()
    st.ret_name("r")
    st.contract("""
        ensures
            // C10: two relations, or kinds that compare structurally - nothing else
            r == is_super(*superset, *subset), // @ST1
    """)
    so = X.fn(TYPES_RS, "is_super_type_of_opt").pub_all()
    so.ret_name("r")
    so.contract("""
        ensures r == (subset is None || superset is None || super_kind(superset->0.kind, subset->0.kind)), // @ST2
    """)
    vt = X.fn(TYPES_RS, "validate_type").pub_all()
    vt.rewrite_re("R6", r"\) -> Result<\(\), Error>\s*where\s*F: Fn\(\) -> Option<String>,\s*\{", ") -> Result<(), Error>\n    {", count=1, why="the bound of the message closure is dropped (the closure is only handed on)")
    vt.ret_name("r")
    vt.contract("""
        ensures
            // C10: accepted only if nothing is expected, the expected type is a super type, or (direct arguments only) an array is expected and the argument is not a function
            r is Ok <==> (expected is None || is_super(*expected->0, *old(found)) || (expected->0.kind is Array && !(old(found).kind is Function))), // @VT1
            *final(found) == *old(found),
    """)
    mt = X.fn(TYPES_RS, "maybe_type_intersection").pub_all()
    return PRELUDE + ty.text + "\n" + tk.text + "\n" + tf.text + "\n" + SHIMS + ti.text + "\n" + mt.text + "\nimpl Ty {\n" + ir.text + "\n}\n" + st.text + "\n" + so.text + "\nimpl Resolver {\n" + vt.text + "\n}\n} // verus!\nfn main() {}\n"


# ----------------------------------------------------------------------------- replay on the real compiler
def _try(src):
    import replaylib
    ok, out = replaylib.compile_prql(src)
    return {"input": src, "expected": "SQL or a list of errors (no panic)", "observed": out[:300], "failing": (not ok) and out.startswith("PANIC"), "replay_kind": "compile"}


def replay(failure):
    for src in ['from a\nselect {x = 1}\nappend (from b | select {x = "s"})\n', "from a\nselect {x = 1}\nappend (from b | select {x = [1, 2]})\n"]:
        r = _try(src)
        if r["failing"]:
            return r
    return {"failing": False}


def rerun(doc):
    return _try(doc["input"])


SWEEP_DOC = "append of relations whose column types differ (int / text / array): compiled by the real prqlc; SQL or errors are expected, never a panic"


def sweep():
    out = []
    for src in ['from a\nselect {x = 1}\nappend (from b | select {x = "s"})\n', "from a\nselect {x = 1}\nappend (from b | select {x = 2})\n",
                "from a\nselect {x = 1}\nappend (from b | select {x = [1, 2]})\n", "from a\nselect {x = 1.5}\nappend (from b | select {x = 2})\n"]:
        r = _try(src)
        r["obligation"] = "type_meet.type_intersection.precondition"
        out.append(r)
    return out
