"""Unit slice_frame: a FRAME condition of C12 - the places that index a string or a slice BY A RANGE (`x[a..b]`, `x[..n]`, `x[n..]`: the form that panics when a bound is past the
end or inside a multi-byte character) are the listed ones; each listed place has its reason.

Table unit (like literal_frame / span_frame: rows are generated from the source on every run and discharged as constant assertions; what is checked is a syntactic fact about the
whole tree, stated as such - it is not a proof about values):
  every .rs file under prqlc/prqlc/src and prqlc/prqlc-parser/src (tests excluded): the functions that contain a range index expression
"""
import os
import re

from extract import ExtractionError

LABELS = []
FUNCTIONS = []
RLIMIT = 30

ASSUMED = [
    {"what": "the scan is textual: a range index inside a macro body of another crate, `get(a..b)` (which does not panic), `split_at` / `truncate` and arithmetic in the bounds are not "
             "looked at; the full range `x[..]` cannot panic and is not a row", "keys": []},
]
TRUSTED = [
    "oracle (C12): compilation never panics - a byte-range index of a str panics when a bound is past the end or not on a character boundary, and user text (names, string literals, "
    "date formats, source files) reaches many helpers.  The few range indexes of the tree are listed with the reason why their bounds are in range; a NEW one - e.g. a helper that "
    "cuts a specifier out of a user's format string with `&s[pos..pos + 2]` - needs a contract of its own (or `get(..)`) before it may be added",
]

ROOTS = ["prqlc/prqlc/src", "prqlc/prqlc-parser/src"]
SITES = {
    "prqlc/prqlc-parser/src/lexer/mod.rs::convert_lexer_error": "source[..byte_start]: unit span_units SU3a-d (byte_start is an offset chumsky reported for this very text)",
    "prqlc/prqlc-parser/src/parser/interpolation.rs::parse": "expected[..expected.len() - 1]: in the arm of `match expected.len()` for lengths of at least 3",
    "prqlc/prqlc-parser/src/parser/types.rs::type_expr": "&fields[0..fields.len().saturating_sub(1)]: the upper bound is at most the length",
    "prqlc/prqlc/src/sql/pq/preprocess.rs::except": "&res[0..res.len() - 2]: behind `if res.len() < 2 { continue; }` (unit setop_pairs has the rest of the function)",
    "prqlc/prqlc/src/sql/pq/preprocess.rs::intersect": "&res[0..res.len() - 1]: behind the check that res is not empty",
    "prqlc/prqlc/src/cli/jinja.rs::find_span": "CLI-only jinja pre-processor (not reached by compile): offsets computed from minijinja's spans of this text; NOT under contract",
    "prqlc/prqlc/src/cli/jinja.rs::post_process": "CLI-only jinja pre-processor (not reached by compile): offsets found by searching this text; NOT under contract",
    "prqlc/prqlc/src/debug/render_html.rs::write_titled_entry": "debug log rendering (`--debug-log`, not reached by compile): the names of the entry kinds all start with the four characters that are cut off; NOT under contract",
}


def _enclosing_fn(src, pos):
    best = None
    for m in re.finditer(r"\bfn\s+(\w+)", src):
        if m.start() < pos:
            best = m.group(1)
        else:
            break
    return best or "?"


def _scan(X):
    rows = set()
    for root in ROOTS:
        top = os.path.join(X.repo, root)
        if not os.path.isdir(top):
            raise ExtractionError("anchor directory missing: %s" % root)
        for dp, dn, fn in os.walk(top):
            dn[:] = [d for d in dn if d not in ("tests", "test")]
            for f in sorted(fn):
                if not f.endswith(".rs") or f in ("test.rs", "tests.rs"):
                    continue
                rel = os.path.relpath(os.path.join(dp, f), X.repo)
                src = X.read(rel)
                mcut = re.search(r"#\[cfg\(test\)\]\s*(?:pub(?:\([a-z]+\))? )?mod \w+\s*\{", src)
                body = src if not mcut else src[:mcut.start()]
                body = re.sub(r"//[^\n]*", lambda mm: " " * len(mm.group(0)), body)
                body = re.sub(r'"(?:[^"\\\n]|\\.)*"', lambda mm: '"' + " " * (len(mm.group(0)) - 2) + '"', body)
                tests = {mm.group(1) for mm in re.finditer(r"#\[test\]\s*(?:#\[[^\]]*\]\s*)*fn\s+(\w+)", body)}
                # an index expression (something that can be indexed in front of `[`) whose bracket holds a range with at least one bound
                for m in re.finditer(r"[\w\)\]]\[([^\[\]\n;]*\.\.[^\[\]\n;]*)\]", body):
                    if m.group(1).strip() in ("..",):
                        continue
                    fn_ = _enclosing_fn(body, m.start())
                    if fn_ not in tests:
                        rows.add((rel, fn_))
    return sorted(rows)


def _label(rel, fn):
    return "RS.site." + re.sub(r"[^A-Za-z0-9_]", "_", rel.replace("prqlc/prqlc/src/", "").replace("prqlc/prqlc-parser/src/", "parser_")) + "." + fn


def DYNAMIC_LABELS():
    import extract
    return sorted({_label(r, f) for r, f in _scan(extract.Extractor())})


def build(X):
    rows = _scan(X)
    if len(rows) < 2:
        raise ExtractionError("range index sites: only %d found - the scan no longer recognises them" % len(rows))
    lines = ["", "#![allow(unused_imports, dead_code)]", "use vstd::prelude::*;", "verus! {",
             "// a function that indexes by a range is one of the sites the oracle lists",
             "pub open spec fn known_site(site: Seq<char>) -> bool { " + " || ".join('site == "%s"@' % a for a in sorted(SITES)) + " }"]
    seen = set()
    for i, (rel, fn) in enumerate(rows):
        site = "%s::%s" % (rel, fn)
        lab = _label(rel, fn)
        if lab in seen:
            continue
        seen.add(lab)
        lines.append('proof fn site_row_%d() { reveal_strlit("%s"); %s assert(known_site("%s"@)); } // @%s' % (
            i, site, "".join('reveal_strlit("%s"); ' % a for a in sorted(SITES)), site, lab))
    lines += ["} // verus!", "fn main() {}", ""]
    return "\n".join(lines)
