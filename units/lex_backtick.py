"""Unit lex_backtick: the name between backticks is the text between them - every character, blanks at the ends included.

Table unit over the real combinator text (like lex_end_expr: the model is generated from the source on every run):
  prqlc/prqlc-parser/src/lexer/mod.rs  ident_part(): the statement `let backtick = ..;` - the chain `none_of('`').repeated()` + the step that makes the value
                                       (`.collect::<String>()`, or `.to_slice()` with a `.map(|s: &str| BODY)`) + `.delimited_by(just('`'), just('`'))`;
                                       BODY becomes the body of the spec function value_of(content)
"""
import re

from extract import ExtractionError

LEXER = "prqlc/prqlc-parser/src/lexer/mod.rs"

LABELS = ["BT1", "BT2"]
FUNCTIONS = []
RLIMIT = 30

ASSUMED = [
    {"what": "chumsky: `none_of(q).repeated()` matches the longest run of characters other than q; `.collect::<String>()` / `.to_slice()` give exactly the matched characters; "
             "`.map(f)` applies f to that value; `.delimited_by(just(q), just(q))` requires q on both sides and keeps the inner value.  In a `.map` body, to_string / to_owned / "
             "String::from / into are the identity on the text; trim / trim_start / trim_end / to_lowercase / to_uppercase / to_ascii_lowercase / to_ascii_uppercase / replace are "
             "uninterpreted functions of the text (they are not the identity: an obligation that needs them to be fails); any other method: the unit does not decide (exit 2)",
     "keys": ["spec fn str_trim", "spec fn str_trim_start", "spec fn str_trim_end", "spec fn str_to_lowercase", "spec fn str_to_uppercase", "spec fn str_to_ascii_lowercase",
              "spec fn str_to_ascii_uppercase", "spec fn str_replace"]},
]
TRUSTED = [
    "oracle (C09): a name written between backticks denotes the object of exactly that name - `stock ` and `stock` are two tables, `Qty` and `qty` two columns; what the SQL "
    "generator quotes (unit ident_quote) is the text the lexer hands on",
]

_IDENTITY = ("to_string", "to_owned", "into")
_OPAQUE = ("trim", "trim_start", "trim_end", "to_lowercase", "to_uppercase", "to_ascii_lowercase", "to_ascii_uppercase")


def _body_to_spec(var, body):
    """`s.m1().m2()..` over the closure variable -> spec expression over `content`"""
    body = " ".join(body.split())
    m = re.match(r"^String::from\((.*)\)$", body)
    if m:
        body = m.group(1)
    m = re.match(r"^%s((?:\.\w+\([^()]*\))*)$" % re.escape(var), body)
    if not m:
        raise ExtractionError("ident_part: the `.map` of the backtick alternative is not a chain of methods on its argument: %s" % body)
    expr = "content"
    for mm in re.finditer(r"\.(\w+)\(([^()]*)\)", m.group(1)):
        name, args = mm.group(1), mm.group(2).strip()
        if name in _IDENTITY and not args:
            continue
        if name in _OPAQUE and not args:
            expr = "str_%s(%s)" % (name, expr)
        elif name == "replace":
            expr = "str_replace(%s)" % expr
        else:
            raise ExtractionError("ident_part: the backtick alternative applies `%s(..)`, a method the unit has no characterization for" % name)
    return expr


def build(X):
    f = X.fn(LEXER, "ident_part")
    m = re.search(r"let backtick = (.*?);\n", f.text, re.S)
    if not m:
        raise ExtractionError("ident_part: `let backtick = ..;` not found")
    chain = re.sub(r"//[^\n]*", "", m.group(1))
    chain = "".join(chain.split())
    mm = re.match(r"^none_of\('`'\)\.repeated\(\)(.*)\.delimited_by\(just\('`'\),just\('`'\)\)$", chain)
    if not mm:
        raise ExtractionError("ident_part: the backtick alternative is not `none_of('`').repeated() .. .delimited_by(just('`'), just('`'))`: %s" % chain[:160])
    mid = mm.group(1)
    raw = re.search(r"let backtick = (.*?);\n", f.text, re.S).group(1)
    if mid == ".collect::<String>()":
        value = "content"
    else:
        m2 = re.search(r"\.to_slice\(\)\s*(?:\.map\(\|(\w+)(?::\s*&str)?\|\s*(.*?)\)\s*)?\.delimited_by", re.sub(r"//[^\n]*", "", raw), re.S)
        if not m2 or not mid.startswith(".to_slice()"):
            raise ExtractionError("ident_part: the value of the backtick alternative is made by a step the unit has no characterization for: %s" % mid[:120])
        if m2.group(1) is None:
            raise ExtractionError("ident_part: `.to_slice()` without a `.map(..)` to a String")
        value = _body_to_spec(m2.group(1), m2.group(2))
    f.rewrites.append({"rule": "table", "what": "the chain of `let backtick = ..;` read as: delimiter '`', value of the text between the delimiters = %s" % value})
    lines = ["", "#![allow(unused_imports, dead_code, unused_parens)]", "use vstd::prelude::*;", "verus! {"]
    for n in _OPAQUE + ("replace",):
        lines.append("pub uninterp spec fn str_%s(s: Seq<char>) -> Seq<char>;" % n)
    lines += ["// the name the lexer hands on for the text `content` found between two backticks",
              "pub open spec fn value_of(content: Seq<char>) -> Seq<char> { %s }" % value,
              "// C09: every character between the backticks is part of the name",
              "proof fn whole_text(content: Seq<char>) ensures value_of(content) == content, {} // @BT1",
              "// .. in particular a blank at either end",
              "proof fn blank_ends() { assert(value_of(seq![' ', 'a', ' ']) =~= seq![' ', 'a', ' ']); } // @BT2",
              "} // verus!", "fn main() {}", ""]
    return "\n".join(lines)


# ----------------------------------------------------------------------------- replay on the real compiler
def _try(src, want):
    import replaylib
    ok, sql = replaylib.compile_prql(src, "sql.sqlite")
    return {"obligation": "lex_backtick.BT1", "input": src, "expected": "the SQL refers to %s" % want, "observed": sql[:300], "failing": (not ok) or want not in sql, "replay_kind": "backtick_name", "want": want}


_CASES = [("from `stock `\nselect {item, `qty `}\n", '"stock "'), ("from t\nselect {` lead`}\n", '" lead"'), ("from t\nselect {`Mixed Case`}\n", '"Mixed Case"')]


def sweep():
    return [_try(*c) for c in _CASES]


def replay(failure):
    for r in sweep():
        if r["failing"]:
            return r
    return {"failing": False}


def rerun(doc):
    return _try(doc["input"], doc["want"])
