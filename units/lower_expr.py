"""Unit lower_expr: lowering an expression from PL to RQ keeps its structure - literals, parameters, operator names, the order of operands, case branches, array elements
and interpolation items - and refuses what has no scalar value.

Real code under contract (prqlc/prqlc/src/semantic/lowering.rs):
  Lowerer::lower_expr (whole function; the bodies of the arms Ident / All, which are under contract in unit lower_ident, are replaced by an unconstrained result;
  recursive calls go through the function's own contract), Lowerer::lower_interpolations (whole), str_lit (whole); prqlc/prqlc/src/ir/rq/utils.rs maybe_binop (whole)
"""
import re

import common_rq
import common_std
from extract import ExtractionError

LOWERING = "prqlc/prqlc/src/semantic/lowering.rs"
PL_EXPR = "prqlc/prqlc/src/ir/pl/expr.rs"
RQ_UTILS = "prqlc/prqlc/src/ir/rq/utils.rs"

LABELS = ["LW1", "LS1", "LL1", "LP1", "LC1", "LC1i", "LO1", "LO1i", "LO2", "LO2i", "LA1", "LA1i", "LSS1", "LF1", "LF1i", "LT1", "LX1", "LIN1", "LIN1i", "SL1", "MB1"]
FUNCTIONS = ["lower_expr", "lower_interpolations", "str_lit", "maybe_binop"]
RLIMIT = 200

ASSUMED = [
    {"what": "opaque external types (Ident, FuncCall, Func, TransformCall, Ty, Lineage, Error)", "keys": ["pub struct Opaque"]},
    common_std.VERIF_ITER_ASSUMPTION,
    {"what": "RECURSION: the calls of lower_expr inside lower_expr / lower_interpolations go through lower_expr_rec, an external function with the contract of lower_expr itself, "
             "abstracted to the uninterpreted relation lower_rel(input, output) (the Lowerer's state is not part of it); termination of the recursion is not proved (it is structural)",
     "keys": ["fn lower_expr_rec", "spec fn lower_rel"]},
    {"what": "the bodies of the arms `Ident` and `All` of lower_expr are replaced by an unconstrained kind or error (verif_other_arm): the Ident arm is under contract in unit lower_ident, "
             "the All arm (find_selected_all) is not under contract", "keys": ["fn verif_other_arm"]},
    {"what": "declare_as_column is external here (under contract in unit lower_cols): declared_rel(expr, cid); `arg.ty.as_ref().is_some_and(|x| x.is_relation())` is the uninterpreted "
             "is_relation_typed(arg); error construction, write_pl and format! are opaque; `\"\".to_string()` is the empty text; `name.to_string()` keeps the text; Option::or has its std meaning",
     "keys": ["fn declare_as_column", "spec fn declared_rel", "fn ty_is_relation", "spec fn is_relation_typed", "fn opaque_error", "fn empty_string", "fn str_to_string", "Option::<T>::or", "struct Lowerer", "struct ColMap", "struct NodeMap", "fn view", "fn get"]},
]
TRUSTED = [
    "oracle (C01 / C02 / C08): the RQ expression denotes what the PL expression denotes only if lowering is a homomorphism: a literal is that literal (C08), a parameter that parameter, "
    "an operator node keeps its name and its operands in order (C02), `case` its branches in order with condition and value in place, an array its elements in order, an s-string its "
    "items in order with the text items unchanged, an f-string is the left-nested std.concat of its items in order with text items as string literals (and the empty f-string is ''); "
    "the source span is kept (C13)",
    "oracle (C10): a relation-typed operand of a scalar operator, a bare tuple, an unapplied function or transform is refused with an error - relation / scalar confusion is never lowered",
    "an expression that needs a window is lowered to a reference to the column it is declared as (declare_as_column: unit lower_cols)",
]

PRELUDE = r"""
#![allow(unused_imports, dead_code, unused_variables, unused_mut, unused_parens, non_snake_case)]
use vstd::prelude::*;
use std::result::Result::*;
verus! {
""" + common_rq.OPAQUE.replace("pub struct SpanMarker; pub type Span = Opaque<SpanMarker>;", "#[derive(Clone, Copy)]\npub struct Span { pub start: usize, pub end: usize, pub source_id: u16 }") + common_std.VERIF_ITER

SPEC = r"""
pub use generic::{InterpolateItem, SwitchCase};
pub use rq::CId;
pub mod pl {
    use super::*;
    pub type Ident = IdentShim; pub type FuncCall = OpaqueT; pub type Func = OpaqueT; pub type TransformCall = OpaqueT; pub type Ty = OpaqueT; pub type Lineage = OpaqueT;
    pub type InterpolateItem = generic::InterpolateItem<Expr>;
    pub type SwitchCase = generic::SwitchCase<Box<Expr>>;
    @PL_TYPES@
}
pub struct IdentShim { pub path: Vec<String>, pub name: String }

// ---------------------------------------------------------------- shims
#[verifier::external_body] pub fn opaque_error() -> Error { unimplemented!() }
#[verifier::external_body] pub fn empty_string() -> (r: String) ensures r@ == Seq::<char>::empty(), { unimplemented!() }
#[verifier::external_body] pub fn str_to_string(s: &str) -> (r: String) ensures r@ == s@, { unimplemented!() }
pub assume_specification<T>[ Option::<T>::or ](a: Option<T>, b: Option<T>) -> (r: Option<T>)
    ensures r == (if a is Some { a } else { b }),
;
pub uninterp spec fn is_relation_typed(e: pl::Expr) -> bool;
#[verifier::external_body] pub fn ty_is_relation(e: &pl::Expr) -> (r: bool) ensures r == is_relation_typed(*e), { unimplemented!() }
#[verifier::external_body] pub fn verif_other_arm() -> Result<rq::ExprKind, Error> { unimplemented!() }

// what a (recursive) call of lower_expr may return for an input: the contract of lower_expr, as a relation
pub uninterp spec fn lower_rel(e: pl::Expr, r: rq::Expr) -> bool;
pub uninterp spec fn declared_rel(e: pl::Expr, c: CId) -> bool;
// the Lowerer's record of what each node was lowered to (same shims as unit lower_ident): present so that text which consults it is decided, not UNDECIDED
#[verifier::external_body] pub struct ColMap { _p: u8 }
pub enum LoweredTarget { Compute(CId), Input(ColMap) }
#[verifier::external_body] pub struct NodeMap { _p: u8 }
impl NodeMap {
    pub uninterp spec fn view(&self) -> Map<usize, LoweredTarget>;
    #[verifier::external_body]
    pub fn get(&self, k: &usize) -> (r: Option<&LoweredTarget>)
        ensures match r { Some(t) => self.view().contains_key(*k) && *t == self.view()[*k], None => !self.view().contains_key(*k) },
    { unimplemented!() }
}
pub struct Lowerer { pub node_mapping: NodeMap, pub rest: OpaqueT }
impl Lowerer {
    #[verifier::external_body] pub fn lower_expr_rec(&mut self, e: pl::Expr) -> (r: Result<rq::Expr, Error>) ensures r is Ok ==> lower_rel(e, r->Ok_0), { unimplemented!() }
    #[verifier::external_body] pub fn declare_as_column(&mut self, e: pl::Expr, is_aggregation: bool) -> (r: Result<CId, Error>) ensures r is Ok ==> declared_rel(e, r->Ok_0), { unimplemented!() }
}

// ---------------------------------------------------------------- vocabulary of the contracts
pub open spec fn item_rel(i: pl::InterpolateItem, o: rq::InterpolateItem) -> bool {
    match i {
        generic::InterpolateItem::String(s) => o == generic::InterpolateItem::<rq::Expr>::String(s),
        generic::InterpolateItem::Expr { expr, format } => o is Expr && lower_rel(*expr, *o->Expr_expr),
    }
}
pub open spec fn items_rel(i: Seq<pl::InterpolateItem>, o: Seq<rq::InterpolateItem>) -> bool {
    o.len() == i.len() && forall|j: int| 0 <= j < i.len() ==> item_rel(#[trigger] i[j], o[j])
}
pub open spec fn cases_rel(i: Seq<pl::SwitchCase>, o: Seq<rq::SwitchCase>) -> bool {
    o.len() == i.len() && forall|j: int| 0 <= j < i.len() ==> (lower_rel(*(#[trigger] i[j]).condition, o[j].condition) && lower_rel(*i[j].value, o[j].value))
}
pub open spec fn exprs_rel(i: Seq<pl::Expr>, o: Seq<rq::Expr>) -> bool {
    o.len() == i.len() && forall|j: int| 0 <= j < i.len() ==> lower_rel(#[trigger] i[j], o[j])
}
// an f-string item as an operand of std.concat: a text item is the string literal of that text
pub open spec fn fitem_rel(i: pl::InterpolateItem, o: rq::Expr) -> bool {
    match i {
        generic::InterpolateItem::String(s) => o == (rq::Expr { kind: rq::ExprKind::Literal(Literal::String(s)), span: None }),
        generic::InterpolateItem::Expr { expr, format } => lower_rel(*expr, o),
    }
}
pub open spec fn fops_rel(items: Seq<pl::InterpolateItem>, ops: Seq<rq::Expr>) -> bool {
    ops.len() == items.len() && forall|j: int| 0 <= j < ops.len() ==> fitem_rel(#[trigger] items[j], ops[j])
}
// the kind of the concatenation of all operands; of no operand: the empty string literal
pub open spec fn concat_kind(ops: Seq<rq::Expr>, k: rq::ExprKind) -> bool {
    if ops.len() == 0 { k is Literal && k->Literal_0 is String && k->Literal_0->String_0@ == Seq::<char>::empty() }
    else if ops.len() == 1 { k == ops[0].kind }
    else { k is Operator && k->Operator_name@ == "std.concat"@ && k->Operator_args@.len() == 2 && k->Operator_args@[1] == ops[ops.len() - 1]
           && concat_of(ops, ops.len() - 1, Some(k->Operator_args@[0])) }
}
// left-nested concatenation of the first n operands: None for n = 0
pub open spec fn concat_of(ops: Seq<rq::Expr>, n: int, res: Option<rq::Expr>) -> bool
    decreases n
{
    if n <= 0 { res is None }
    else if n == 1 { res == Some(ops[0]) }
    else {
        res is Some && res->0.span is None && res->0.kind is Operator && res->0.kind->Operator_name@ == "std.concat"@ && res->0.kind->Operator_args@.len() == 2
        && res->0.kind->Operator_args@[1] == ops[n - 1] && concat_of(ops, n - 1, Some(res->0.kind->Operator_args@[0]))
    }
}
"""


def build(X):
    model = common_rq.rq_module(X, with_transform=False, real_items=True)
    e = X.type_item(PL_EXPR, "struct", "Expr").drop_attrs()
    ek = X.type_item(PL_EXPR, "enum", "ExprKind").drop_attrs()
    spec = SPEC.replace("@PL_TYPES@", e.text + "\n" + ek.text)

    # ---------------------------------------------------------------- helpers (real code)
    sl = X.fn(LOWERING, "str_lit").pub_all()
    sl.ret_name("r")
    sl.contract("""
        ensures r == (rq::Expr { kind: rq::ExprKind::Literal(Literal::String(string)), span: None }), // @SL1
    """)
    mb = X.fn(RQ_UTILS, "maybe_binop").pub_all()
    mb.rewrite_re("R6", r"\bOption<Expr>", "Option<rq::Expr>", count=None, why="module path in the generated file")
    mb.rewrite_re("R6", r"Some\(Expr \{", "Some(rq::Expr {", count=None, why="module path")
    mb.rewrite_re("R6", r"\bExprKind::Operator", "rq::ExprKind::Operator", count=None, why="module path")
    mb.rewrite_re("R5", r"\boperator_name\.to_string\(\)", "str_to_string(operator_name)", count=None, why="str::to_string")
    mb.ret_name("r")
    mb.contract("""
        ensures
            match (left, right) {
                (Some(l), Some(rr)) => r is Some && r->0.span is None && r->0.kind is Operator && r->0.kind->Operator_name@ == operator_name@ && r->0.kind->Operator_args@ =~= seq![l, rr],
                (Some(l), None) => r == Some(l),
                (None, x) => r == x,
            }, // @MB1
    """)
    mb.text = "pub mod rq_utils { use super::*;\n" + mb.text + "\n}\n"

    # ---------------------------------------------------------------- lower_interpolations
    li = X.fn(LOWERING, "lower_interpolations").pub_all()
    li.rewrite_re("R6", r"\) -> Result<Vec<InterpolateItem<rq::Expr>>> \{", ") -> Result<Vec<InterpolateItem<rq::Expr>>, Error> {", count=1, why="Result alias")
    li.rewrite_re("R6", r"\bself\.lower_expr\(", "self.lower_expr_rec(", count=None, why="recursive call through the contract")
    # the closure `|i| { Ok(match i { .. }) }` has no return type: give it the shape R14 knows (`-> Result<_> { Ok(E) }`)
    li.rewrite_re("R3", r"\.map\(\|i\| \{\s*Ok\(match i \{", ".map(|i| -> Result<_> { Ok(match i {", count=1, why="closure return type annotation")
    n = li.desugar_try_collect(
        ghost_tpl="",
        invariant_tpl=("                invariant 0 <= verif_tc{K}.pos() <= verif_src{K}.len(), verif_tc{K}.all() == verif_src{K}, verif_out{K}@.len() == verif_tc{K}.pos(),\n"
                       "                    forall|j: int| 0 <= j < verif_tc{K}.pos() ==> item_rel(#[trigger] verif_src{K}[j], verif_out{K}@[j]), // @LIN1i\n"
                       "                ensures verif_tc{K}.pos() >= verif_src{K}.len(),\n"
                       "                decreases verif_src{K}.len() - verif_tc{K}.pos(),\n"),
        end_tpl="", after_tpl="")
    if n != 1:
        raise ExtractionError("lower_interpolations: expected one map + try_collect chain, found %d" % n)
    li.text = li.text.replace("let mut verif_out1 = Vec::new();", "let mut verif_out1: Vec<InterpolateItem<rq::Expr>> = Vec::new();")
    li.ret_name("r")
    li.contract("""
        ensures
            // C08 / C01: every item, in order; text items unchanged, expression items lowered
            r is Ok ==> items_rel(items@, r->Ok_0@), // @LIN1
    """)

    # ---------------------------------------------------------------- lower_expr
    f = X.fn(LOWERING, "lower_expr").pub_all().drop_logging()
    f.rewrite_re("R6", r"\) -> Result<rq::Expr> \{", ") -> Result<rq::Expr, Error> {", count=1, why="Result alias")
    # the arms that are under contract elsewhere (Ident: unit lower_ident) or not at all (All)
    for start in ("pl::ExprKind::Ident(ident) =>", "pl::ExprKind::All { within, except } =>"):
        p = f.text.find(start)
        if p < 0:
            raise ExtractionError("lower_expr: arm `%s` not found" % start)
        b = f.text.index("{", p + len(start))
        depth, j = 0, b
        while True:
            if f.text[j] == "{":
                depth += 1
            elif f.text[j] == "}":
                depth -= 1
                if depth == 0:
                    break
            j += 1
        f.text = f.text[:b] + "{ verif_other_arm()? }" + f.text[j + 1:]
        f.rewrites.append({"rule": "slice", "what": "body of the arm `%s` replaced by an unconstrained kind / error" % start})
    f.rewrite_re("R6", r"\bself\.lower_expr\(", "self.lower_expr_rec(", count=None, why="recursive call through the contract")
    f.rewrite_re("R5", r"Error::new_simple\(\s*\"[^\"]*\",?\s*\)(?:\s*\.push_hint\(\"[^\"]*\"\))*(?:\s*\.with_span\([\w.]+\))?", "opaque_error()", count=None, why="error construction")
    f.rewrite_re("R5", r"Error::new\(Reason::Unexpected \{.*?\}\)(?:\s*\.push_hint\(\"[^\"]*\"\))*(?:\s*\.with_span\([\w.]+\))?", "opaque_error()", count=None, why="error construction")
    f.rewrite_re("R5", r"Error::new_assert\(format!\((?:[^()]|\((?:[^()]|\([^()]*\))*\))*\)\)", "opaque_error()", count=None, why="error construction")
    f.rewrite_re("R5", r"\barg\.ty\.as_ref\(\)\.is_some_and\(\|x\| x\.is_relation\(\)\)", "ty_is_relation(arg)", count=None, why="the resolved type of the operand is a relation: uninterpreted")
    f.rewrite_re("R5", r'str_lit\(""\.to_string\(\)\)', "str_lit(empty_string())", count=None, why='"".to_string()')
    f.rewrite_re("R6", r"\brq::maybe_binop\(", "rq_utils::maybe_binop(", count=None, why="module path in the generated file")
    # loops: the relation check over &args (a counting loop), the f-string fold, the three map + try_collect chains
    f.rewrite_re("R11", r"for arg in &args \{", "let mut verif_k: usize = 0;\n                while verif_k < args.len()\n"
                 "                    invariant verif_k <= args@.len(), forall|j: int| 0 <= j < verif_k ==> !is_relation_typed(#[trigger] args@[j]), // @LO2i\n"
                 "                    decreases args@.len() - verif_k,\n                {\n                    let arg = &args[verif_k]; verif_k = verif_k + 1;", count=1,
                 why="`for arg in &args` as the counting loop it is (shared borrow: elements in order)")
    it = f.desugar_for(1)
    f.loop_contract(1, """
        invariant
            0 <= %(it)s.pos() <= %(it)s.all().len(), %(it)s.all() == fitems,
            fops.len() == %(it)s.pos(),
            forall|j: int| 0 <= j < %(it)s.pos() ==> fitem_rel(#[trigger] fitems[j], fops[j]),
            concat_of(fops, %(it)s.pos(), res), // @LF1i
        ensures %(it)s.pos() >= fitems.len(),
        decreases %(it)s.all().len() - %(it)s.pos(),
    """ % {"it": it})
    f.insert_before("let mut res = None;", "let ghost fitems = items@; let ghost mut fops: Seq<rq::Expr> = Seq::empty();", "ghost: the f-string's items and their lowered operands")
    # ghost names for the operands of the concatenation step (whatever the call's arguments are) and the proof hint after it
    mstep = re.search(r"res = rq_utils::maybe_binop\(([^;]*)\);", f.text)
    if not mstep:
        raise ExtractionError("lower_expr: the f-string step `res = rq::maybe_binop(..);` not found")
    f.text = (f.text[:mstep.start()] + "let ghost verif_prev = res; let ghost verif_item_low = item->0; " + mstep.group(0) +
              " proof { let ghost verif_old_ops = fops; fops = fops.push(verif_item_low); assert(fops.drop_last() =~= verif_old_ops); lemma_concat_step(fops, %s.pos(), verif_prev, res); }" % it
              + f.text[mstep.end():])
    f.rewrites.append({"rule": "R12", "what": "ghost names for the operands of the f-string step and a proof hint after it (annotation only)"})
    f.insert_before("res.unwrap_or_else(", "proof { assert(fops_rel(fitems, fops)); lemma_concat_kind(fops, res); }", "proof hint: the witness of LF1")
    tcs = f.desugar_try_collect(
        ghost_tpl="",
        invariant_tpl=("                invariant 0 <= verif_tc{K}.pos() <= verif_src{K}.len(), verif_tc{K}.all() == verif_src{K}, verif_out{K}@.len() == verif_tc{K}.pos(),\n"
                       "                    @INV{K}@\n"
                       "                ensures verif_tc{K}.pos() >= verif_src{K}.len(),\n"
                       "                decreases verif_src{K}.len() - verif_tc{K}.pos(),\n"),
        end_tpl="", after_tpl="")
    if tcs != 3:
        raise ExtractionError("lower_expr: expected three map + try_collect chains (case, operator arguments, array), found %d" % tcs)
    f.desugar_option_closures()
    for k, ty in ((1, "rq::SwitchCase"), (2, "rq::Expr"), (3, "rq::Expr")):
        f.text = f.text.replace("let mut verif_out%d = Vec::new();" % k, "let mut verif_out%d: Vec<%s> = Vec::new();" % (k, ty))
    f.rewrites.append({"rule": "R3", "what": "type annotations on the result vectors of the three desugared chains"})
    f.text = f.text.replace("@INV1@", "forall|j: int| 0 <= j < verif_tc1.pos() ==> (lower_rel(*(#[trigger] verif_src1[j]).condition, verif_out1@[j].condition) && lower_rel(*verif_src1[j].value, verif_out1@[j].value)), // @LC1i")
    f.text = f.text.replace("@INV2@", "forall|j: int| 0 <= j < verif_tc2.pos() ==> lower_rel(#[trigger] verif_src2[j], verif_out2@[j]), // @LO1i")
    f.text = f.text.replace("@INV3@", "forall|j: int| 0 <= j < verif_tc3.pos() ==> lower_rel(#[trigger] verif_src3[j], verif_out3@[j]), // @LA1i")
    f.ret_name("r")
    f.contract("""
        ensures
            // an expression that needs a window is a reference to the column it was declared as
            (expr.needs_window && r is Ok) ==> (r->Ok_0.kind is ColumnRef && declared_rel(expr, r->Ok_0.kind->ColumnRef_0)), // @LW1
            // C13: the source span is kept
            r is Ok ==> r->Ok_0.span == expr.span, // @LS1
            // C08: a literal is that literal
            (!expr.needs_window && expr.kind is Literal && r is Ok) ==> r->Ok_0.kind == rq::ExprKind::Literal(expr.kind->Literal_0), // @LL1
            (!expr.needs_window && expr.kind is Param && r is Ok) ==> r->Ok_0.kind == rq::ExprKind::Param(expr.kind->Param_0), // @LP1
            // `case`: the branches in order, condition and value in place
            (!expr.needs_window && expr.kind is Case && r is Ok) ==> (r->Ok_0.kind is Case && cases_rel(expr.kind->Case_0@, r->Ok_0.kind->Case_0@)), // @LC1
            // C02: an operator keeps its name and its operands, in order
            (!expr.needs_window && expr.kind is RqOperator && r is Ok) ==> (r->Ok_0.kind is Operator && r->Ok_0.kind->Operator_name == expr.kind->RqOperator_name
                && exprs_rel(expr.kind->RqOperator_args@, r->Ok_0.kind->Operator_args@)), // @LO1
            // C10: a relation where a scalar is required is refused
            (!expr.needs_window && expr.kind is RqOperator && (exists|j: int| 0 <= j < expr.kind->RqOperator_args@.len() && is_relation_typed(#[trigger] expr.kind->RqOperator_args@[j]))) ==> r is Err, // @LO2
            (!expr.needs_window && expr.kind is Array && r is Ok) ==> (r->Ok_0.kind is Array && exprs_rel(expr.kind->Array_0@, r->Ok_0.kind->Array_0@)), // @LA1
            (!expr.needs_window && expr.kind is SString && r is Ok) ==> (r->Ok_0.kind is SString && items_rel(expr.kind->SString_0@, r->Ok_0.kind->SString_0@)), // @LSS1
            // C08: an f-string is the left-nested concatenation of its items, in order; the empty f-string is ''
            (!expr.needs_window && expr.kind is FString && r is Ok) ==> (exists|ops: Seq<rq::Expr>| #[trigger] fops_rel(expr.kind->FString_0@, ops) && concat_kind(ops, r->Ok_0.kind)), // @LF1
            // C10: a bare tuple has no scalar value
            (!expr.needs_window && expr.kind is Tuple) ==> r is Err, // @LT1
            // an unapplied function, a transform or an unresolved internal reference cannot be lowered
            (!expr.needs_window && (expr.kind is FuncCall || expr.kind is Func || expr.kind is TransformCall || expr.kind is Internal)) ==> r is Err, // @LX1
    """)
    lemma = r"""
pub proof fn lemma_concat_step(ops: Seq<rq::Expr>, n: int, prev: Option<rq::Expr>, res: Option<rq::Expr>)
    ensures (n >= 1 && ops.len() == n && concat_of(ops.drop_last(), n - 1, prev)
        && (match prev { Some(l) => res is Some && res->0.span is None && res->0.kind is Operator && res->0.kind->Operator_name@ == "std.concat"@ && res->0.kind->Operator_args@ =~= seq![l, ops[n - 1]],
                     None => res == Some(ops[n - 1]) })) ==> concat_of(ops, n, res),
{
    if n >= 1 && ops.len() == n && concat_of(ops.drop_last(), n - 1, prev) {
        lemma_concat_prefix(ops.drop_last(), ops, n - 1, prev);
        if n >= 2 { assert(prev is Some) by { if n - 1 == 1 {} else {} } }
    }
}
pub proof fn lemma_concat_kind(ops: Seq<rq::Expr>, res: Option<rq::Expr>)
    requires concat_of(ops, ops.len() as int, res),
    ensures ops.len() == 0 ==> res is None, ops.len() >= 1 ==> (res is Some && concat_kind(ops, res->0.kind)),
{}
pub proof fn lemma_concat_prefix(a: Seq<rq::Expr>, b: Seq<rq::Expr>, n: int, res: Option<rq::Expr>)
    requires 0 <= n <= a.len(), a.len() <= b.len(), forall|j: int| 0 <= j < n ==> a[j] == b[j], concat_of(a, n, res),
    ensures concat_of(b, n, res),
    decreases n
{
    if n >= 2 { lemma_concat_prefix(a, b, n - 1, Some(res->0.kind->Operator_args@[0])); }
}
"""
    impl = "impl Lowerer {\n" + f.text + "\n" + li.text + "\n}\n"
    return PRELUDE + model + spec + lemma + sl.text + "\n" + mb.text + "\n" + impl + "\n} // verus!\nfn main() {}\n"


# ----------------------------------------------------------------------------- replay / sweep on the real compiler + SQLite
SWEEP_DOC = ("f-strings (item order, text items, the empty f-string), case (branch order), operators (operand order), arrays, s-strings and relation-typed operands: compiled by the real prqlc for "
             "sql.sqlite and executed on a small table, or required to be rejected")
SETUP = "create table t(id integer, a integer, b integer, s text); insert into t values (1, 7, 2, 'ab'), (2, 3, 5, 'cd'), (3, 10, 4, 'xa');"
_CASES = [  # (program, expected rows or "reject", obligation)
    ("from t\nsort id\nselect {v = f\"<{s}|{a}-{b}>\"}\n", [("<ab|7-2>",), ("<cd|3-5>",), ("<xa|10-4>",)], "LF1"),
    ("from t\nsort id\nselect {v = f\"{s}\"}\n", [("ab",), ("cd",), ("xa",)], "LF1"),
    ("from t\nsort id\nselect {v = f\"\"}\n", [("",), ("",), ("",)], "LF1"),
    ("from t\nsort id\nselect {v = f\"  {a} \"}\n", [("  7 ",), ("  3 ",), ("  10 ",)], "LF1"),
    # the text fragments of an f-string are string literals: their escape sequences denote what they denote in a plain string (round-7 seed C08-13)
    ("from t\nsort id\nselect {v = f\"id:\\t[\\x41]\\\\end{a}\"}\n", [("id:\t[A]\\end7",), ("id:\t[A]\\end3",), ("id:\t[A]\\end10",)], "LF1"),
    ("from t\nsort id\nselect {v = f\"\\u{e9}{a}\\n\"}\n", [("\u00e97\n",), ("\u00e93\n",), ("\u00e910\n",)], "LF1"),
    ("from t\nsort id\nselect {v = case [a > 8 => 'big', a > 5 => 'mid', true => 'small']}\n", [("mid",), ("small",), ("big",)], "LC1"),
    ("from t\nsort id\nselect {v = case [a > 5 => b, a > 8 => 0 - b]}\n", [(2,), (None,), (4,)], "LC1"),
    ("from t\nsort id\nselect {v = a - b - 1, w = a / b > 1}\n", [(4, 1), (-3, 0), (5, 1)], "LO1"),
    ("from t\nfilter (a | in [3, 10])\nsort id\nselect {id}\n", [(2,), (3,)], "LA1"),
    ("from t\nsort id\nselect {v = s\"{a} * 10 + {b}\"}\n", [(72,), (35,), (104,)], "LSS1"),
    ("let u = (from t | select {a})\nfrom t\nselect {v = a + u}\n", "reject", "LO2"),
    ("let u = (from t | select {a})\nfrom t\nfilter a == u\n", "reject", "LO2"),
    ("from t\nselect {v = {a, b}}\nfilter v == 1\n", "reject", "LT1"),
]


def _try(src, exp, lab):
    import replaylib
    ok, sql = replaylib.compile_prql(src, "sql.sqlite")
    rec = {"obligation": "lower_expr." + lab, "input": src, "expected": exp if exp == "reject" else [list(r) for r in exp], "replay_kind": "rows", "label": lab}
    if exp == "reject":
        rec.update(failing=ok or sql.startswith("PANIC"), observed=sql[:300])
        return rec
    if not ok:
        rec.update(failing=True, observed=sql[:300])
        return rec
    ok2, rows = replaylib.sqlite_rows(SETUP, sql)
    rows = [tuple(r) for r in rows] if ok2 else rows
    rec.update(failing=(not ok2) or rows != exp, observed=[list(r) for r in rows] if ok2 else "sqlite error: %s" % rows, sql=sql)
    return rec


def sweep():
    return [_try(*c) for c in _CASES]


def replay(failure):
    lab = (failure.get("label") or "")[:3]
    rs = sweep()
    for r in rs:
        if r["failing"] and r["label"][:3] == lab:
            return r
    for r in rs:
        if r["failing"]:
            return r
    return {"failing": False}


def rerun(doc):
    exp = doc["expected"]
    return _try(doc["input"], exp if exp == "reject" else [tuple(r) for r in exp], doc["label"])
