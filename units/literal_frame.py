"""Unit literal_frame: a FRAME condition of C08 - the content of a string literal is made by the lexer (and by the few listed places that create a string from something
that is not a literal); everything else copies it.

Table unit (like span_frame: rows are generated from the source on every run and discharged as constant assertions; what is checked is a syntactic fact about the whole
tree, stated as such - it is not a proof about values):
  every .rs file under prqlc/prqlc/src and prqlc/prqlc-parser/src (tests excluded): the functions that CONSTRUCT a `Literal::String(..)` / `Literal::RawString(..)` value
  (an occurrence that is not a pattern: not followed by `=>`, `|`, `=` or `if`, not inside `matches!(` / `let .. =`)
"""
import os
import re

from extract import ExtractionError

LABELS = []
FUNCTIONS = []
RLIMIT = 30

ASSUMED = [
    {"what": "the scan is textual: a string literal built through a helper of another name or through `.into()` is not seen; the split between patterns and constructions is a heuristic "
             "(what follows the closing parenthesis, and whether the occurrence stands in a `let` / `matches!` pattern)", "keys": []},
]
TRUSTED = [
    "oracle (C08): the characters of a string literal are decided where the source text is read - the lexer's string() / multi_quoted_string() with parse_escape_sequence (unit lex_strings) - and "
    "are handed on unchanged by the parser, the resolver, lowering (unit lower_expr LL1) and the SQL generator (unit literals TL1s/r).  The places that create a string literal "
    "from something else (the compiler version, a cell of from_text, the date format of a dialect, the text fragment of an f-string) are listed with their reason.  A NEW "
    "function that constructs a string literal - e.g. one that `normalises` the content on its way through the parser - needs a contract of its own before it may be added",
]

ROOTS = ["prqlc/prqlc/src", "prqlc/prqlc-parser/src"]
MAKERS = {
    "prqlc/prqlc-parser/src/lexer/mod.rs::string": "the lexer: unit lex_strings (multi_quoted_string, parse_escape_sequence)",
    "prqlc/prqlc-parser/src/lexer/mod.rs::raw_string": "the lexer: a raw string is the text between its quotes",
    "prqlc/prqlc/src/semantic/lowering.rs::str_lit": "the text fragment of an f-string as a literal: unit lower_expr SL1, LF1",
    "prqlc/prqlc/src/semantic/resolver/transforms.rs::resolve_special_func": "std.prql_version: the compiler's version text",
    "prqlc/prqlc/src/semantic/resolver/transforms.rs::parse_row": "a cell of from_text format:csv",
    "prqlc/prqlc/src/semantic/resolver/transforms.rs::map_json_primitive": "a string of from_text format:json: unit json_lits",
    "prqlc/prqlc/src/sql/gen_expr.rs::process_date_to_text": "the date format of date.to_text rewritten for the dialect",
}


def _enclosing_fn(src, pos):
    best = None
    for m in re.finditer(r"\bfn\s+(\w+)", src):
        if m.start() < pos:
            best = m.group(1)
        else:
            break
    return best or "?"


def _is_construction(body, m):
    # the balanced argument list of this occurrence
    i, depth = m.end(), 1
    while i < len(body) and depth:
        depth += {"(": 1, ")": -1}.get(body[i], 0)
        i += 1
    after = body[i:i + 40].lstrip()
    # closing parentheses of enclosing patterns such as `Some(Literal::String(s)) =>` / `ExprKind::Literal(Literal::String(s)) =`
    after = after.lstrip(")").lstrip()
    if after.startswith(("=>", "|", "if ")) or (after.startswith("=") and not after.startswith("==")):
        return False
    before = body[max(0, m.start() - 120):m.start()]
    line = before.split("\n")[-1]
    if re.search(r"\b(?:if\s+let|while\s+let|let)\b[^=;]*$", line) or re.search(r"matches!\([^;]*$", before.split(";")[-1]):
        return False
    return True


def _scan(X):
    rows = set()
    for root in ROOTS:
        top = os.path.join(X.repo, root)
        if not os.path.isdir(top):
            raise ExtractionError("anchor directory missing: %s" % root)
        for dp, dn, fn in os.walk(top):
            dn[:] = [d for d in dn if d not in ("tests", "test")]
            for f in sorted(fn):
                if not f.endswith(".rs") or f in ("test.rs", "tests.rs"):
                    continue
                rel = os.path.relpath(os.path.join(dp, f), X.repo)
                src = X.read(rel)
                mcut = re.search(r"#\[cfg\(test\)\]\s*(?:pub(?:\([a-z]+\))? )?mod \w+\s*\{", src)
                body = src if not mcut else src[:mcut.start()]
                body = re.sub(r"//[^\n]*", lambda mm: " " * len(mm.group(0)), body)
                tests = {mm.group(1) for mm in re.finditer(r"#\[test\]\s*(?:#\[[^\]]*\]\s*)*fn\s+(\w+)", body)}
                for m in re.finditer(r"\bLiteral::(?:String|RawString)\(", body):
                    fn_ = _enclosing_fn(body, m.start())
                    if fn_ in tests or not _is_construction(body, m):
                        continue
                    rows.add((rel, fn_))
                # the constructor used as a function value: `.map(Literal::String)`
                for m in re.finditer(r"\bLiteral::(?:String|RawString)\b(?!\s*\()", body):
                    fn_ = _enclosing_fn(body, m.start())
                    if fn_ not in tests:
                        rows.add((rel, fn_))
    return sorted(rows)


def _label(rel, fn):
    return "LF.maker." + re.sub(r"[^A-Za-z0-9_]", "_", rel.replace("prqlc/prqlc/src/", "").replace("prqlc/prqlc-parser/src/", "parser_")) + "." + fn


def DYNAMIC_LABELS():
    import extract
    return sorted({_label(r, f) for r, f in _scan(extract.Extractor())})


def build(X):
    rows = _scan(X)
    if len(rows) < 3:
        raise ExtractionError("makers of string literals: only %d found - the scan no longer recognises how they are built" % len(rows))
    lines = ["", "#![allow(unused_imports, dead_code)]", "use vstd::prelude::*;", "verus! {",
             "// a function that constructs a string literal is one of the makers the oracle lists",
             "pub open spec fn known_maker(site: Seq<char>) -> bool { " + " || ".join('site == "%s"@' % a for a in sorted(MAKERS)) + " }"]
    seen = set()
    for i, (rel, fn) in enumerate(rows):
        site = "%s::%s" % (rel, fn)
        lab = _label(rel, fn)
        if lab in seen:
            continue
        seen.add(lab)
        lines.append('proof fn maker_row_%d() { reveal_strlit("%s"); %s assert(known_maker("%s"@)); } // @%s' % (
            i, site, "".join('reveal_strlit("%s"); ' % a for a in sorted(MAKERS)), site, lab))
    lines += ["} // verus!", "fn main() {}", ""]
    return "\n".join(lines)
