"""Unit datetime_lit: the SQLite form of a date / time literal is computed without indexing outside the literal's text, however short it is.

Real code under contract:
  prqlc/prqlc/src/sql/gen_expr.rs  translate_datetime_literal_with_sqlite_function: the statements that compute `time_value` (slice)
"""
import re

import common_rq
from extract import ExtractionError

GEN_EXPR = "prqlc/prqlc/src/sql/gen_expr.rs"

LABELS = ["DL1"]
FUNCTIONS = ["sqlite_time_value"]
RLIMIT = 60

ASSUMED = [
    {"what": "opaque external types", "keys": ["pub struct Opaque"]},
    {"what": "regex: the constant pattern `([+-]\\d{2}):?(\\d{2})$` compiles; captures(text) is Some exactly when the text ends in a timezone indicator (tz_suffix, "
             "uninterpreted); `re.replace(&value, format!(\"{}:{}\", &groups[1], &groups[2]))` is the text with that indicator rewritten as [+-]HH:MM (normalized, "
             "uninterpreted); std::str byte slicing (split_at, &s[a..b]) carries its documented panic condition as a precondition",
     "keys": ["struct Regex", "struct Groups", "fn tz_regex", "fn captures", "spec fn tz_suffix", "fn replace_tz", "spec fn normalized", "fn str_split_at", "fn str_byte_len", "fn str_index"]},
]
TRUSTED = [
    "oracle (C12): the lexer accepts hour-only times (`@08`, `@12Z`), so the text of a literal can be as short as two characters; for EVERY text the function returns an "
    "expression - it never panics; DL1: a text with a timezone indicator gets the indicator in the form SQLite's date functions read, any other text is passed on unchanged",
    "the slice drops the construction of the function call around the value",
]

PRELUDE = r"""
#![allow(unused_imports, dead_code, unused_variables, unused_mut, unused_parens, non_snake_case)]
use vstd::prelude::*;
verus! {
""" + common_rq.OPAQUE + r"""
#[verifier::external_body] pub struct Regex { _p: u8 }
#[verifier::external_body] pub struct Groups { _p: u8 }
pub uninterp spec fn tz_suffix(s: Seq<char>) -> bool;
pub uninterp spec fn normalized(s: Seq<char>) -> Seq<char>;
pub uninterp spec fn byte_len(s: Seq<char>) -> nat;
pub uninterp spec fn is_boundary(s: Seq<char>, b: nat) -> bool;
#[verifier::external_body] pub fn tz_regex() -> Regex { unimplemented!() }
impl Regex {
    #[verifier::external_body] pub fn captures(&self, text: &str) -> (r: Option<Groups>) ensures r is Some <==> tz_suffix(text@), { unimplemented!() }
}
#[verifier::external_body]
pub fn replace_tz(re: &Regex, value: &String, groups: &Groups) -> (r: String) requires tz_suffix(value@), ensures r@ == normalized(value@), { unimplemented!() }
#[verifier::external_body] pub fn str_byte_len(s: &str) -> (r: usize) ensures r == byte_len(s@), { unimplemented!() }
// PANICS unless mid is within the text and on a character boundary
#[verifier::external_body]
pub fn str_split_at<'a>(s: &'a str, mid: usize) -> (r: (&'a str, &'a str)) requires mid <= byte_len(s@), is_boundary(s@, mid as nat), { unimplemented!() }
#[verifier::external_body]
pub fn str_index<'a>(s: &'a str, a: usize, b: usize) -> (r: &'a str) requires a <= b <= byte_len(s@), is_boundary(s@, a as nat), is_boundary(s@, b as nat), { unimplemented!() }
"""


def build(X):
    f = X.fn(GEN_EXPR, "translate_datetime_literal_with_sqlite_function")
    body = f.text.split("{", 1)[1]
    m = re.search(r"let time_value = ", body)
    if not m:
        raise ExtractionError("translate_datetime_literal_with_sqlite_function: `let time_value = ..;` not found")
    # end of that statement: first `;` at nesting depth 0 after it
    depth, i = 0, m.end()
    while i < len(body):
        c = body[i]
        if c in "([{":
            depth += 1
        elif c in ")]}":
            depth -= 1
        elif c == ";" and depth == 0:
            break
        i += 1
    f.name = "sqlite_time_value"
    f.text = body[:i + 1].strip()
    f.rewrites.append({"rule": "slice", "what": "the statements of translate_datetime_literal_with_sqlite_function up to and including `let time_value = ..;` wrapped as fn sqlite_time_value(value) -> time_value"})
    f.desugar_slice_patterns()
    f.rewrite_re("R5", r'Regex::new\(r"\(\[\+-\]\\d\{2\}\):\?\(\\d\{2\}\)\$"\)\.unwrap\(\)', "tz_regex()", count=None, why="the constant regex compiles")
    f.rewrite_re("R5", r"(\w+)\s*\.replace\(&value, format!\(\"\{\}:\{\}\", &groups\[1\], &groups\[2\]\)\.as_str\(\)\)\s*\.to_string\(\)", r"replace_tz(&\1, &value, &groups)", count=None,
                 why="Regex::replace with the two captured groups joined by a colon")
    f.rewrite_re("R5", r"\bvalue\.split_at\(", "str_split_at(value.as_str(), ", count=None, why="str::split_at (panics outside the text / off a char boundary)")
    f.rewrite_re("R5", r"\bvalue\.len\(\)", "str_byte_len(value.as_str())", count=None, why="String::len")
    f.rewrite_re("R5", r"&(\w+)\[(\w*)\.\.(\w*)\]", lambda mm: "str_index(%s, %s, %s)" % (mm.group(1), mm.group(2) or "0", mm.group(3) or ("str_byte_len(%s)" % mm.group(1))), count=None,
                 why="str index by a byte range (panics outside the text / off a char boundary)")
    f.text = ("pub fn sqlite_time_value(value: String) -> (r: String)\n"
              "    ensures\n"
              "        r@ == (if tz_suffix(value@) { normalized(value@) } else { value@ }), // @DL1\n"
              "{\n    " + f.text + "\n    time_value\n}\n")
    return PRELUDE + f.text + "\n} // verus!\nfn main() {}\n"


# ----------------------------------------------------------------------------- replay on the real compiler
INPUTS = ["from t\nselect {start = @08, lunch = @12Z}\n", "from t\nfilter started_at > @08\n", "from t\nselect {d = @2020-01-01, ts = @2020-01-01T10:00:00+0100, t = @08:30}\n",
          "from t\nselect {z = @1Z}\n"]


def _try(src):
    import replaylib
    ok, out = replaylib.compile_prql(src, "sql.sqlite")
    return {"input": src, "expected": "SQL or a list of errors (no panic)", "observed": out[:300], "failing": (not ok) and out.startswith("PANIC"), "replay_kind": "compile"}


def replay(failure):
    for src in INPUTS:
        r = _try(src)
        if r["failing"]:
            return r
    return {"failing": False}


def rerun(doc):
    return _try(doc["input"])


SWEEP_DOC = "date / time literals of every length (hour only, with and without a timezone indicator) compiled for sql.sqlite by the real prqlc: SQL or errors are expected, never a panic"


def sweep():
    out = []
    for src in INPUTS:
        r = _try(src)
        r["obligation"] = "datetime_lit.sqlite_time_value.precondition"
        out.append(r)
    return out
