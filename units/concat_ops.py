"""Unit concat_ops: the operands of an f-string / concatenation are its flattened operands - each of them, in order, unchanged.

Real code under contract:
  prqlc/prqlc/src/sql/gen_expr.rs  collect_concat_args (whole function)
"""
import re

import common_rq
import common_std
from extract import ExtractionError

GEN_EXPR = "prqlc/prqlc/src/sql/gen_expr.rs"

LABELS = ["CC1", "CC2"]
FUNCTIONS = ["collect_concat_args"]
RLIMIT = 60

ASSUMED = [
    {"what": "opaque external types", "keys": ["pub struct Opaque"]},
    {"what": "`args.iter().flat_map(<the function itself>).collect()` is flat_all(): the concatenation, in order, of the flattened operands of every argument (the recursion "
             "is inside this shim); `name == \"std.concat\"` compares the text; `vec![expr]` / clones of expressions are the identity; any re-ordering / de-duplication "
             "call on the vector is over-approximated by `any vector`",
     "keys": ["fn flat_map_collect", "spec fn flat_all", "fn string_eq_lit", "fn vec_of_one", "fn clone_exprs"]},
    common_std.REORDER_ASSUMPTION,
]
TRUSTED = [
    "oracle (C08): the text and the interpolated values of an f-string reach the database in the order written: the operand list handed to `||` / CONCAT is the "
    "flattened operand list of the (nested) std.concat, nothing merged away, dropped or reordered",
]

PRELUDE = r"""
#![allow(unused_imports, dead_code, unused_variables, unused_mut, unused_parens, non_snake_case)]
use vstd::prelude::*;
verus! {
""" + common_rq.OPAQUE + common_std.REORDER


SHIMS = r"""
pub uninterp spec fn flat_all(args: Seq<rq::Expr>) -> Seq<rq::Expr>;
#[verifier::external_body]
pub fn flat_map_collect(args: &Vec<rq::Expr>) -> (r: Vec<&rq::Expr>)
    ensures r@.len() == flat_all(args@).len(), forall|i: int| 0 <= i < r@.len() ==> *#[trigger] r@[i] == flat_all(args@)[i],
{ unimplemented!() }
#[verifier::external_body] pub fn string_eq_lit(a: &String, b: &str) -> (r: bool) ensures r == (a@ == b@), { unimplemented!() }
#[verifier::external_body] pub fn vec_of_one(e: &rq::Expr) -> (r: Vec<&rq::Expr>) ensures r@.len() == 1, *r@[0] == *e, { unimplemented!() }
// the flattened operands of an expression
pub open spec fn flat_ops(e: rq::Expr) -> Seq<rq::Expr> {
    if e.kind is Operator && e.kind->Operator_name@ == "std.concat"@ { flat_all(e.kind->Operator_args@) } else { seq![e] }
}
"""


def build(X):
    model = common_rq.rq_module(X, with_transform=False)
    cc = X.fn(GEN_EXPR, "collect_concat_args").pub_all()
    cc.rewrite_re("R5", r"\bargs\.iter\(\)\.flat_map\(\w+\)\.collect\(\)", "flat_map_collect(args)", count=None, why="recursive flat_map over the arguments")
    cc.rewrite_re("R5", r'\bname == "std\.concat"', 'string_eq_lit(name, "std.concat")', count=None, why="String == &str")
    cc.rewrite_re("R5", r"\bvec!\[expr\]", "vec_of_one(expr)", count=None, why="vec![expr]")
    cc.shim_reorderings()
    cc.ret_name("r")
    cc.contract("""
        ensures
            // C08: exactly the flattened operands, each of them, in order
            r@.len() == flat_ops(*expr).len(), // @CC1
            forall|i: int| 0 <= i < r@.len() ==> *#[trigger] r@[i] == flat_ops(*expr)[i], // @CC2
    """)
    return PRELUDE + model + SHIMS + cc.text + "\n} // verus!\nfn main() {}\n"


# ----------------------------------------------------------------------------- replay / sweep on the real compiler + SQLite
SWEEP_DOC = ("f-strings whose pieces end up next to each other (an f-string passed through a function into another f-string, a string constant interpolated next to text): "
             "compiled by the real prqlc for sql.sqlite and executed by SQLite; the text must come out whole")

_PRQL = ('let tag = x -> f"<{x}>"\nlet sep = " - "\nfrom t\nselect {plain = f"<{a}+>", through_func = (tag f"{a}+"), with_const = f"{a}\'{sep}\'{b}", '
         'lead = f"x{a}", trail = f"{a}y"}\n')
_WANT = ("<p+>", "<p+>", "p' - 'q", "xp", "py")


def _try():
    import replaylib
    rec = {"obligation": "concat_ops.CC2", "input": _PRQL, "expected": repr(_WANT), "replay_kind": "concat"}
    ok, sql = replaylib.compile_prql(_PRQL, "sql.sqlite")
    if not ok:
        rec.update(failing="PANIC" in sql, observed=sql[:300])
        return rec
    ok2, rows = replaylib.sqlite_rows("create table t(a text, b text); insert into t values('p','q');", sql)
    got = tuple(rows[0]) if ok2 and rows else rows
    rec.update(failing=got != _WANT, observed=repr(got)[:300], sql=sql)
    return rec


def sweep():
    return [_try()]


def replay(failure):
    r = _try()
    return r if r["failing"] else {"failing": False}


def rerun(doc):
    return _try()
