"""Unit frame_decls: the names a frame makes resolvable are exactly the names of its columns.

Real code under contract:
  prqlc/prqlc/src/semantic/module.rs   Module::insert_frame: the statement `match column { .. }` after "// insert column decl" (slice: what ONE column of the lineage declares)
  prqlc/prqlc/src/ir/pl/lineage.rs     enum LineageColumn, struct LineageInput (verbatim)
  prqlc/prqlc-parser/.../pr/ident.rs   struct Ident (verbatim)
"""
import re

import common_rq
from extract import ExtractionError, code_tokens, match_brace

MODULE = "prqlc/prqlc/src/semantic/module.rs"
LINEAGE = "prqlc/prqlc/src/ir/pl/lineage.rs"
IDENT = "prqlc/prqlc-parser/src/parser/pr/ident.rs"

LABELS = ["FD1", "FD2", "FD3", "FD4"]
FUNCTIONS = ["declare_frame_column"]
RLIMIT = 60

ASSUMED = [
    {"what": "opaque external types", "keys": ["pub struct Opaque"]},
    {"what": "Module / Decl / DeclKind are skeletons with the real names (Module {names}, Decl {kind, declared_at, order}: the fields insert_frame sets - `..Default::default()` "
             "covers fields the skeleton does not have; DeclKind {Column, Infer, Other}); HashMap<String, Decl> is the shim NameMap with a ghost Map view (insert); "
             "HashSet<String> of LineageColumn::All is opaque; Lineage::find_input is external: Some(input) exactly for an input with that id; String::clone / to_string keep the characters",
     "keys": ["struct NameMap", "fn view", "fn insert", "struct StrSet", "fn find_input", "spec fn input_with_id", "fn clone_string", "fn str_to_string"]},
]
ASSUMED.append({"what": "FD4 is a SYNTACTIC row (like the frame units): it states where the statements `namespace.redirects.push(..)` of insert_frame stand - all inside the loop over "
                "lineage.columns - not what they do; a namespace made resolvable by other means is not seen", "keys": []})
TRUSTED = [
    "oracle (C10): after a transform, the columns that can be named are the columns of its frame: a named column declares its own name as that column (and nothing else); "
    "a star declares only the inference placeholder `_infer` of its input - never a concrete name - and only when its input exists in this frame; an unnamed column declares "
    "nothing. Every other name of the namespace is left as it was",
    "precondition (not verified): col_index < usize::MAX (it indexes a vector)",
    "the slice drops: the choice of the namespace (`ns`) for the column's input, the creation of an input's sub-namespace, `_self`",
]

PRELUDE = r"""
#![allow(unused_imports, dead_code, unused_variables, unused_mut, unused_parens, non_snake_case)]
use vstd::prelude::*;
verus! {
""" + common_rq.OPAQUE + r"""
#[verifier::external_body] pub struct StrSet { _p: u8 }
pub enum DeclKind { Column(usize), Infer(Box<DeclKind>), Other(OpaqueT) }
pub struct Decl { pub kind: DeclKind, pub declared_at: Option<usize>, pub order: usize }
#[verifier::external_body] pub struct NameMap { _p: u8 }
impl NameMap {
    pub uninterp spec fn view(&self) -> Map<Seq<char>, Decl>;
    #[verifier::external_body]
    pub fn insert(&mut self, k: String, v: Decl) -> (r: Option<Decl>) ensures final(self).view() == old(self).view().insert(k@, v), { unimplemented!() }
}
pub struct Module { pub names: NameMap }
pub const NS_INFER: &'static str = "_infer";
#[verifier::external_body] pub fn clone_string(s: &String) -> (r: String) ensures r@ == s@, { unimplemented!() }
#[verifier::external_body] pub fn str_to_string(s: &str) -> (r: String) ensures r@ == s@, { unimplemented!() }
"""

SHIMS = r"""
pub struct Lineage { pub inputs: Vec<LineageInput> }
pub open spec fn input_with_id(l: Lineage, id: usize) -> bool { exists|k: int| 0 <= k < l.inputs@.len() && #[trigger] l.inputs@[k].id == id }
impl Lineage {
    #[verifier::external_body]
    pub fn find_input(&self, input_id: usize) -> (r: Option<&LineageInput>)
        ensures r is Some <==> input_with_id(*self, input_id), r is Some ==> r->0.id == input_id,
    { unimplemented!() }
}
"""


def build(X):
    ident = X.type_item(IDENT, "struct", "Ident").drop_attrs()
    lc = X.type_item(LINEAGE, "enum", "LineageColumn").drop_attrs()
    lc.rewrite_re("R6", r"HashSet<String>", "StrSet", count=None, why="HashSet<String> shim (opaque here)")
    li = X.type_item(LINEAGE, "struct", "LineageInput").drop_attrs()
    f = X.fn(MODULE, "insert_frame")
    src = f.text
    p = src.find("// insert column decl")
    if p < 0:
        raise ExtractionError("insert_frame: the comment `// insert column decl` in front of the column's `match` is gone")
    m = re.compile(r"match column \{").search(src, p)
    if not m:
        raise ExtractionError("insert_frame: `match column { .. }` after `// insert column decl` not found")
    toks = code_tokens(src)
    k = next(i for i, t in enumerate(toks) if t[1] == m.end() - 1)
    e = toks[match_brace(src, toks, k)][2]
    f.name = "declare_frame_column"
    f.text = src[m.start():e]
    f.rewrites.append({"rule": "slice", "what": "`match column { .. }` after `// insert column decl` (body of the loop over the columns of the lineage) wrapped as "
                       "fn declare_frame_column(ns, column, col_index, lineage)"})
    f.rewrite_re("R6", r",?\s*\.\.Default::default\(\)", "", count=None, why="the skeleton Decl has exactly the fields that are set explicitly")
    f.rewrite_re("R5", r"\bNS_INFER\.to_string\(\)", "str_to_string(NS_INFER)", count=None, why="str::to_string")
    f.rewrite_re("R5", r"\bname\.name\.clone\(\)", "clone_string(&name.name)", count=None, why="String::clone")
    f.text = ("pub fn declare_frame_column(ns: &mut Module, column: &LineageColumn, col_index: usize, lineage: &Lineage)\n"
              "    requires col_index < usize::MAX,\n"
              "    ensures\n"
              "        // a named column declares its own name as that column, at its position\n"
              "        (*column is Single && column->Single_name is Some) ==> final(ns).names.view() == old(ns).names.view().insert(column->Single_name->0.name@,\n"
              "            Decl { kind: DeclKind::Column(column->Single_target_id), declared_at: None, order: (col_index + 1) as usize }), // @FD1\n"
              "        // a star declares only the inference placeholder of its input, if the input is part of this frame\n"
              "        *column is All ==> final(ns).names.view() == (if input_with_id(*lineage, column->All_input_id) {\n"
              "            old(ns).names.view().insert(\"_infer\"@, Decl { kind: DeclKind::Infer(Box::new(DeclKind::Column(column->All_input_id))), declared_at: Some(column->All_input_id), order: (col_index + 1) as usize })\n"
              "            } else { old(ns).names.view() }), // @FD2\n"
              "        // an unnamed column declares nothing\n"
              "        (*column is Single && column->Single_name is None) ==> final(ns).names.view() == old(ns).names.view(), // @FD3\n"
              "{\n    " + f.text + "\n}\n")
    # ---- FD4 (syntactic row, like the frame units): WHERE insert_frame makes a namespace `this.<input>` resolvable - the statements that push a redirect - all lie inside the
    # loop over the COLUMNS of the lineage (an input none of whose columns is in the frame gets no namespace, so `a.x` after `select {b.y}` finds nothing to be inferred from)
    code = re.sub(r"//[^\n]*", lambda mm: " " * len(mm.group(0)), src)
    pushes = [mm.start() for mm in re.finditer(r"\bnamespace\s*\.redirects\s*\.push\(", code)]
    ml = re.search(r"for \(col_index, column\) in lineage\.columns\.iter\(\)\.enumerate\(\) \{", code)
    if not pushes or not ml:
        raise ExtractionError("insert_frame: `namespace.redirects.push(..)` / the loop `for (col_index, column) in lineage.columns.iter().enumerate()` not found")
    ctoks = code_tokens(code)
    kb = next(i for i, t in enumerate(ctoks) if t[1] == ml.end() - 1)
    lo, hi = ml.end(), ctoks[match_brace(code, ctoks, kb)][1]
    inside = all(lo <= q < hi for q in pushes)
    f.rewrites.append({"rule": "table", "what": "row FD4: %d statement(s) `namespace.redirects.push(..)` in insert_frame, %s inside the loop over lineage.columns" % (len(pushes), "all" if inside else "NOT all")})
    fd4 = ("// a namespace for an input is made resolvable only while a column of that input is being declared\n"
           "pub open spec fn namespaces_follow_columns() -> bool { %s }\nproof fn fd4_row() { assert(namespaces_follow_columns()); } // @FD4\n" % ("true" if inside else "false"))
    return PRELUDE + ident.text + "\n" + lc.text + "\n" + li.text + "\n" + SHIMS + f.text + fd4 + "\n} // verus!\nfn main() {}\n"
