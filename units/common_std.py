"""Specifications of std functions that extracted (or edited) text may start using and that this vstd does not specify.
Each is an assumption about the Rust standard library, counted in the unit's assumption scan."""

STD_SPECS = r"""
pub assume_specification<T>[ core::mem::replace::<T> ](dest: &mut T, src: T) -> (r: T)
    ensures *final(dest) == src, r == *old(dest);

pub assume_specification<T: Default>[ core::mem::take::<T> ](dest: &mut T) -> (r: T)
    ensures r == *old(dest);

pub assume_specification<T>[ Option::<T>::or ](a: Option<T>, b: Option<T>) -> (r: Option<T>)
    ensures r == (if a is Some { a } else { b });

pub assume_specification<T, P: FnOnce(&T) -> bool>[ Option::<T>::filter ](o: Option<T>, p: P) -> (r: Option<T>)
    requires o is Some ==> p.requires((&o->0,)),
    ensures
        o is None ==> r is None,
        o is Some ==> ((p.ensures((&o->0,), true) ==> r == o) && (p.ensures((&o->0,), false) ==> r is None) && (r is None || r == o));
"""
N_STD_TOKENS = 4
STD_ASSUMPTION = {"what": "core::mem::replace / core::mem::take / Option::or / Option::filter have their documented std meaning (assume_specification)",
                  "count": N_STD_TOKENS}


# unconstrained results for boolean str predicates (see extract.Item.shim_str_predicates)
STR_PREDS = r"""
#[verifier::external_body] pub fn str_pred_starts_with<S, P>(s: &S, p: P) -> bool { unimplemented!() }
#[verifier::external_body] pub fn str_pred_ends_with<S, P>(s: &S, p: P) -> bool { unimplemented!() }
#[verifier::external_body] pub fn str_pred_eq_ignore_ascii_case<S, P>(s: &S, p: P) -> bool { unimplemented!() }
#[verifier::external_body] pub fn str_pred_is_ascii<S>(s: &S) -> bool { unimplemented!() }
"""
STR_PREDS_ASSUMPTION = {"what": "boolean str predicates (starts_with, ends_with, eq_ignore_ascii_case, is_ascii) return an unconstrained bool",
                        "keys": ["fn str_pred_"], "count": 4}

REORDER = r"""
#[verifier::external_body] pub fn verif_reorder<T>(v: &mut Vec<T>) { unimplemented!() }
"""
REORDER_ASSUMPTION = {"what": "in-place sorts / reverse / dedup / retain on a vector are replaced by verif_reorder(): the result is an arbitrary vector",
                      "keys": ["fn verif_reorder"], "count": 1}


# R11: iterator that a desugared `for x in vec` consumes
VERIF_ITER = r"""
#[verifier::external_body] #[verifier::reject_recursive_types(T)]
pub struct VerifIter<T> { _p: core::marker::PhantomData<T> }
impl<T> VerifIter<T> {
    pub uninterp spec fn all(&self) -> Seq<T>;
    pub uninterp spec fn pos(&self) -> int;
    #[verifier::external_body]
    pub fn next(&mut self) -> (r: Option<T>)
        ensures
            final(self).all() == old(self).all(),
            (0 <= old(self).pos() < old(self).all().len()) ==> (r == Some(old(self).all()[old(self).pos()]) && final(self).pos() == old(self).pos() + 1),
            old(self).pos() >= old(self).all().len() ==> (r is None && final(self).pos() == old(self).pos()),
    { unimplemented!() }
}
#[verifier::external_body]
pub fn verif_into_iter<T>(v: Vec<T>) -> (r: VerifIter<T>) ensures r.all() == v@, r.pos() == 0, { unimplemented!() }
"""
VERIF_ITER_ASSUMPTION = {"what": "R11: `for x in vec` is `let mut it = vec.into_iter(); while let Some(x) = it.next()`: VerifIter yields the elements of the vector in order, once",
                         "keys": ["struct VerifIter", "fn all", "fn pos", "fn next", "fn verif_into_iter"]}


# R11 for loops over references: `for x in v.iter()` / `for x in &v` / `for x in v.iter().rev()`
VERIF_REF_ITER = r"""
#[verifier::external_body] #[verifier::reject_recursive_types(T)]
pub struct VerifRefIter<'a, T> { _p: core::marker::PhantomData<&'a T> }
impl<'a, T> VerifRefIter<'a, T> {
    pub uninterp spec fn all(&self) -> Seq<T>;      // the elements in the order in which they are yielded
    pub uninterp spec fn pos(&self) -> int;
    #[verifier::external_body]
    pub fn next(&mut self) -> (r: Option<&'a T>)
        ensures
            final(self).all() == old(self).all(),
            (0 <= old(self).pos() < old(self).all().len()) ==> (r is Some && *r->0 == old(self).all()[old(self).pos()] && final(self).pos() == old(self).pos() + 1),
            old(self).pos() >= old(self).all().len() ==> (r is None && final(self).pos() == old(self).pos()),
    { unimplemented!() }
}
#[verifier::external_body]
pub fn verif_ref_iter<'a, T>(v: &'a Vec<T>) -> (r: VerifRefIter<'a, T>) ensures r.all() == v@, r.pos() == 0, { unimplemented!() }
#[verifier::external_body]
pub fn verif_rev_iter<'a, T>(v: &'a Vec<T>) -> (r: VerifRefIter<'a, T>) ensures r.all() == v@.reverse(), r.pos() == 0, { unimplemented!() }
"""
VERIF_REF_ITER_ASSUMPTION = {"what": "R11: `for x in v.iter()` / `v.iter().rev()` is `let mut it = ..; while let Some(x) = it.next()`: VerifRefIter yields references to the elements of the "
                                     "vector in order (resp. in reverse order), once",
                             "keys": ["struct VerifRefIter", "fn all", "fn pos", "fn next", "fn verif_ref_iter", "fn verif_rev_iter"]}
