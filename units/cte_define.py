"""Unit cte_define: a table that is inlined as a sub-query for one reference stays definable as a CTE for the other references.

Real code under contract:
  prqlc/prqlc/src/sql/pq/gen_query.rs  compile_relation_instance: the statement `if !(ctx.query.allow_ctes && table_ref.prefer_cte) { .. return Ok(sub-query) }`
"""
import re

import common_rq
from extract import ExtractionError

PQ_GEN = "prqlc/prqlc/src/sql/pq/gen_query.rs"

LABELS = ["CI1", "CI2", "CI3"]
FUNCTIONS = ["inline_slice"]
RLIMIT = 60

ASSUMED = [
    {"what": "opaque external types", "keys": ["pub struct Opaque"]},
    {"what": "SqlTableDecl is the shim {relation}; RelationStatus is {NotYetDefined(rel), Defined}; SqlRelation is opaque and its clone is the identity; compile_relation "
             "is external (compiled()); pq::RelationExpr / RelationExprKind::SubQuery are shims with the real names; ctx.query.allow_ctes and table_ref.prefer_cte are fields "
             "of shims", "keys": ["struct SqlRel", "fn clone", "fn compile_relation", "spec fn compiled"]},
]
TRUSTED = [
    "oracle (C06 / C07): the status `Defined` of a table declaration means `a CTE with this name has been emitted`; a reference that is compiled inline (no CTE allowed "
    "or none preferred, e.g. the bottom of append, or inside a recursive loop) emits no CTE, so the declaration must stay NotYetDefined with its relation - otherwise the "
    "next reference is compiled to the bare table name of a CTE that does not exist",
    "the slice drops the rest of compile_relation_instance (definition as a CTE, recomputation of cid redirects)",
]

PRELUDE = r"""
#![allow(unused_imports, dead_code, unused_variables, unused_mut, unused_parens, non_snake_case)]
use vstd::prelude::*;
use std::result::Result::*;
verus! {
""" + common_rq.OPAQUE + r"""
#[verifier::external_body] pub struct SqlRel { _p: u8 }
impl SqlRel { #[verifier::external_body] pub fn clone(&self) -> (r: SqlRel) ensures r == *self, { unimplemented!() } }
pub enum RelationStatus { NotYetDefined(SqlRel), Defined }
pub struct SqlTableDecl { pub relation: RelationStatus }
pub type RIId = OpaqueT;
pub mod pq {
    use super::*;
    pub enum RelationExprKind { Ref(OpaqueT), SubQuery(SqlRel) }
    pub struct RelationExpr { pub kind: RelationExprKind, pub riid: RIId }
}
pub struct QueryOpts { pub allow_ctes: bool }
pub struct Context { pub query: QueryOpts }
pub struct TableRefShim { pub prefer_cte: bool }
pub uninterp spec fn compiled(r: SqlRel) -> SqlRel;
#[verifier::external_body]
pub fn compile_relation(r: SqlRel, ctx: &mut Context) -> (res: Result<SqlRel, Error>) ensures res is Ok ==> res->Ok_0 == compiled(r), final(ctx).query == old(ctx).query, { unimplemented!() }
"""


def build(X):
    sl = X.if_blocks(PQ_GEN, "compile_relation_instance", "if !(ctx.query.allow_ctes && table_ref.prefer_cte) {", name="inline_slice", need_else=False, whole=True)[0]
    sl.text = ("pub fn inline_slice(decl: &mut SqlTableDecl, sql_relation: SqlRel, table_ref: &TableRefShim, riid: RIId, ctx: &mut Context) -> (r: Result<Option<pq::RelationExpr>, Error>)\n"
               "    requires old(decl).relation is Defined,      // take_to_define() has just moved the relation out of the declaration\n"
               "    ensures\n"
               "        // C06 / C07: compiled inline (Some) = no CTE emitted = the declaration stays definable, with the same relation\n"
               "        (r is Ok && r->Ok_0 is Some) ==> final(decl).relation == RelationStatus::NotYetDefined(sql_relation), // @CI1\n"
               "        // inline exactly when CTEs are not allowed or not preferred; then the reference is the compiled sub-query\n"
               "        r is Ok ==> (r->Ok_0 is Some <==> !(old(ctx).query.allow_ctes && table_ref.prefer_cte)), // @CI2\n"
               "        (r is Ok && r->Ok_0 is Some) ==> r->Ok_0->0.kind == pq::RelationExprKind::SubQuery(compiled(sql_relation)), // @CI3\n"
               "{\n    " + re.sub(r"return Ok\(pq::RelationExpr \{", "return Ok(Some(pq::RelationExpr {", sl.text).replace("riid,\n            });", "riid,\n            }));", 1)
               + "\n    Ok(None)\n}\n")
    if "return Ok(Some(pq::RelationExpr {" not in sl.text or "}));" not in sl.text:
        raise ExtractionError("compile_relation_instance: the early `return Ok(pq::RelationExpr { .. SubQuery .. })` is not where the unit expects it")
    sl.rewrites.append({"rule": "slice", "what": "the statement `if !(ctx.query.allow_ctes && table_ref.prefer_cte) { .. }` of compile_relation_instance wrapped as fn inline_slice; "
                        "its `return Ok(expr)` becomes `return Ok(Some(expr))`, falling through (= define as a CTE) becomes Ok(None)"})
    return PRELUDE + sl.text + "\n} // verus!\nfn main() {}\n"


# ----------------------------------------------------------------------------- replay on the real compiler
SETUP = "create table t(a integer, b integer); insert into t values (1,1),(2,2),(3,3); create table s(a integer, b integer); insert into s values (9,9);"
CASES = [
    "let recent = (from t | select {a, b} | filter a > 1)\nfrom s\nselect {a, b}\nappend recent\nappend recent\n",
    "let recent = (from t | select {a, b} | filter a > 1)\nfrom s\nselect {a, b}\nappend recent\ntake 10\njoin recent (==a)\n",
    "let recent = (from t | select {a, b} | filter a > 1)\nfrom recent\nappend recent\n",
]


def _try(src):
    import replaylib
    out = None
    for target in ("sql.sqlite", "sql.generic"):
        ok, sql = replaylib.compile_prql(src, target)
        if not ok:
            return {"input": src, "expected": "SQL that SQLite prepares", "observed": sql[:400], "failing": sql.startswith("PANIC"), "replay_kind": "prepare", "target": target}
        ok2, rows = replaylib.sqlite_rows(SETUP, sql)
        out = {"input": src, "expected": "SQL that SQLite prepares", "observed": ("ok: %d rows" % len(rows)) if ok2 else "sqlite error: %s\n%s" % (rows, sql[:600]),
               "failing": not ok2, "replay_kind": "prepare", "target": target}
        if not ok2:
            return out
    return out


def replay(failure):
    for src in CASES:
        r = _try(src)
        if r["failing"]:
            return r
    return {"failing": False}


def rerun(doc):
    return _try(doc["input"])


SWEEP_DOC = "a let-table used as the operand of append and referenced again (append, join, from): compiled by the real prqlc for sql.sqlite and sql.generic; SQLite must be able to prepare and run the SQL"


def sweep():
    out = []
    for src in CASES:
        r = _try(src)
        r["obligation"] = "cte_define.CI1"
        out.append(r)
    return out
