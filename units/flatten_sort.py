"""Unit flatten_sort: which transforms inherit a sort, and that group resets it (Flattener).

Real code under contract:
  prqlc/prqlc/src/semantic/resolver/flatten.rs  Flattener::fold_expr: the `TransformKind::Sort { by }` arm, the `TransformKind::Group { by, pipeline }` arm
                                                (without its tail that builds the result Expr) and the slice `let sort = if matches!(kind, ..) .. ExprKind::TransformCall(..)`
"""
import re

import common_rq
from extract import ExtractionError, code_tokens, match_brace

FLATTEN = "prqlc/prqlc/src/semantic/resolver/flatten.rs"

LABELS = ["FS1", "FS2", "FS3", "FG1", "FG2", "FG3", "FG4", "FT1", "FT2", "FT3", "FW1", "FW2", "FW3", "FO1", "FO2"]
FUNCTIONS = ["flatten_sort_arm", "flatten_group_arm", "flatten_call_slice", "flatten_window_arm", "flatten_other_arm"]
RLIMIT = 80

ASSUMED = [
    {"what": "opaque external types", "keys": ["pub struct Opaque"]},
    {"what": "Flattener is the shim {sort, sort_undone, partition, window, replace_map} plus a GHOST log of every expression folded, with the (sort_undone, partition, sort) "
             "in effect when its folding started; fold_expr (the recursion) is external: it appends to the log, may set `sort` (an upstream sort), and restores "
             "sort_undone / partition / window; fold_column_sorts is external (folded_sorts()); pl::Expr, TransformKind payloads are opaque; Vec<ColumnSort>::clone / "
             "clone_from / clear, Option<Box<Expr>>::clone, WindowFrame::clone have their std meaning; `matches!(by.kind, Tuple(fields) if fields.is_empty())` is is_empty_tuple()",
     "keys": ["struct PlExpr", "struct ReplaceMap", "fn insert", "fn remove", "fn into_func_unwrap", "spec fn func_body", "fn parse_usize_unwrap", "fn fold_expr", "fn fold_column_sorts",
              "spec fn folded_sorts", "fn clone_sorts", "fn clone_from_sorts", "fn clear_sorts", "fn clone_partition", "fn clone_frame", "fn is_empty_tuple", "spec fn empty_tuple",
              "struct ColumnSortPl", "struct WindowFramePl", "fn box_new", "fn make_frame", "spec fn frame_of", "fn default_frame", "spec fn default_frame_spec", "fn fold_transform_kind"]},
]
TRUSTED = [
    "oracle (C03): a sort is in effect for every transform downstream of it until the next sort - the most recent one wins; a group (with a non-empty key) resets it: "
    "sorts upstream of the group are dropped, the group's inner pipeline starts unsorted, and nothing downstream of the group inherits an order; the transform call "
    "of a join / append carries no sort of its own while the sort stays in effect after it (the left input of a join retains its order)",
    "the slices drop: the other arms of fold_expr, the construction of the group's result expression (type / lineage)",
]

PRELUDE = r"""
#![allow(unused_imports, dead_code, unused_variables, unused_mut, unused_parens, non_snake_case)]
use vstd::prelude::*;
use std::result::Result::*;
verus! {
""" + common_rq.OPAQUE + r"""
#[verifier::external_body] pub struct PlExpr { _p: u8 }
pub type Expr = PlExpr;
#[verifier::external_body] pub struct ColumnSortPl { _p: u8 }
pub type ColumnSort = ColumnSortPl;
#[verifier::external_body] pub struct WindowFramePl { _p: u8 }
pub type WindowFrame = WindowFramePl;
pub type Range = OpaqueT; pub type WindowKind = OpaqueT;
pub struct FuncParam { pub name: String }
pub struct Func { pub params: Vec<FuncParam>, pub body: Box<Expr> }
pub struct TransformCallInput { pub input: Box<Expr> }
#[verifier::external_body] pub struct ReplaceMap { _p: u8 }
impl ReplaceMap {
    #[verifier::external_body] pub fn insert(&mut self, k: usize, v: Expr) { unimplemented!() }
    #[verifier::external_body] pub fn remove(&mut self, k: &usize) { unimplemented!() }
}
pub uninterp spec fn func_body(e: Expr) -> Box<Expr>;
#[verifier::external_body]
pub fn into_func_unwrap(pipeline: Box<Expr>) -> (r: Box<Func>) ensures r.params@.len() >= 1, r.body == func_body(*pipeline), { unimplemented!() }
#[verifier::external_body] pub fn parse_usize_unwrap(s: &String) -> usize { unimplemented!() }
pub uninterp spec fn empty_tuple(e: Expr) -> bool;
#[verifier::external_body] pub fn is_empty_tuple(e: &Box<Expr>) -> (r: bool) ensures r == empty_tuple(**e), { unimplemented!() }
#[verifier::external_body] pub fn clone_sorts(v: &Vec<ColumnSort>) -> (r: Vec<ColumnSort>) ensures r@ == v@, { unimplemented!() }
#[verifier::external_body] pub fn clone_from_sorts(dst: &mut Vec<ColumnSort>, src: &Vec<ColumnSort>) ensures final(dst)@ == src@, { unimplemented!() }
#[verifier::external_body] pub fn clear_sorts(v: &mut Vec<ColumnSort>) ensures final(v)@.len() == 0, { unimplemented!() }
#[verifier::external_body] pub fn clone_partition(p: &Option<Box<Expr>>) -> (r: Option<Box<Expr>>) ensures r == *p, { unimplemented!() }
#[verifier::external_body] pub fn clone_frame(w: &WindowFrame) -> (r: WindowFrame) ensures r == *w, { unimplemented!() }
#[verifier::external_body] pub fn box_new<T>(t: T) -> (r: Box<T>) ensures *r == t, { unimplemented!() }
pub uninterp spec fn frame_of(kind: WindowKind, range: Range) -> WindowFrame;
#[verifier::external_body] pub fn make_frame(kind: WindowKind, range: Range) -> (r: WindowFrame) ensures r == frame_of(kind, range), { unimplemented!() }
pub uninterp spec fn default_frame_spec() -> WindowFrame;
#[verifier::external_body] pub fn default_frame() -> (r: WindowFrame) ensures r == default_frame_spec(), { unimplemented!() }
"""

SHIM2 = r"""
pub struct TransformCall { pub input: Box<Expr>, pub kind: Box<TransformKind>, pub partition: Option<Box<Expr>>, pub frame: WindowFrame, pub sort: Vec<ColumnSort> }
pub enum ExprKind { TransformCall(TransformCall), Other(OpaqueT) }

// what was in effect when the folding of an expression started
pub struct Env { pub sort_undone: bool, pub partition: Option<Box<Expr>>, pub sort: Seq<ColumnSort>, pub window: WindowFrame }
pub struct Flattener {
    pub sort: Vec<ColumnSort>, pub sort_undone: bool, pub partition: Option<Box<Expr>>, pub window: WindowFrame, pub replace_map: ReplaceMap,
    pub log: Ghost<Seq<(Expr, Env)>>,
    pub kind_entry_sort: Ghost<Seq<ColumnSort>>,   // GHOST: the sort in effect when fold_transform_kind was entered last
}
pub open spec fn env_of(f: Flattener) -> Env { Env { sort_undone: f.sort_undone, partition: f.partition, sort: f.sort@, window: f.window } }
pub uninterp spec fn folded_sorts(by: Seq<ColumnSort>) -> Seq<ColumnSort>;
impl Flattener {
    #[verifier::external_body]
    pub fn fold_expr(&mut self, e: Expr) -> (r: Result<Expr, Error>)
        ensures
            final(self).log@ == old(self).log@.push((e, env_of(*old(self)))), final(self).kind_entry_sort@ == old(self).kind_entry_sort@,
            final(self).sort_undone == old(self).sort_undone, final(self).partition == old(self).partition, final(self).window == old(self).window,
    { unimplemented!() }
}
// folding the payload of a transform (the joined / appended relation, expressions): the same flattener recurses into sub-pipelines, which may leave THEIR sort in `sort`
#[verifier::external_body]
pub fn fold_transform_kind(f: &mut Flattener, kind: TransformKind) -> (r: Result<TransformKind, Error>)
    ensures
        final(f).kind_entry_sort@ == old(f).sort@, final(f).log@ == old(f).log@,
        final(f).sort_undone == old(f).sort_undone, final(f).partition == old(f).partition, final(f).window == old(f).window,
{ unimplemented!() }
#[verifier::external_body]
pub fn fold_column_sorts(f: &mut Flattener, by: Vec<ColumnSort>) -> (r: Result<Vec<ColumnSort>, Error>)
    ensures *final(f) == *old(f), r is Ok ==> r->Ok_0@ == folded_sorts(by@),
{ unimplemented!() }
"""


COVERED_ARMS = ("TransformKind::Sort", "TransformKind::Group", "TransformKind::Window", "kind")


def _check_arms(X):
    """Every arm of `match *t.kind { .. }` in Flattener::fold_expr must be one of the arms this unit has a contract for: an arm that is not (an edit added a special case) is
    code this unit cannot speak about - the unit is then UNDECIDED instead of passing over it."""
    from extract import code_tokens, match_brace
    f = X.fn(FLATTEN, "fold_expr")
    X.items.remove(f)
    m = re.search(r"match \*t\.kind \{", f.text)
    if not m:
        raise ExtractionError("Flattener::fold_expr: `match *t.kind { .. }` not found")
    toks = code_tokens(f.text)
    k = next(i for i, t in enumerate(toks) if t[1] == m.end() - 1)
    close = match_brace(f.text, toks, k)
    heads, depth, start = [], 0, toks[k][2]
    i = k + 1
    while i < close:
        ch = f.text[toks[i][1]]
        if toks[i][0] == "punct" and ch in "([{":
            depth += 1
        elif toks[i][0] == "punct" and ch in ")]}":
            depth -= 1
        elif depth == 0 and f.text[toks[i][1]:toks[i][1] + 2] == "=>":
            pat = " ".join(f.text[start:toks[i][1]].split())
            heads.append(pat)
            # skip the arm's body: a block or an expression up to the next top-level comma
            j = i + 1
            if f.text[toks[j][1]] == ">":     # `=>` is two punctuation tokens
                j += 1
            if f.text[toks[j][1]] == "{":
                j = match_brace(f.text, toks, j)
                i = j
                if i + 1 < close and f.text[toks[i + 1][1]] == ",":
                    i += 1
            else:
                d2 = 0
                while j < close:
                    c2 = f.text[toks[j][1]]
                    if toks[j][0] == "punct" and c2 in "([{":
                        d2 += 1
                    elif toks[j][0] == "punct" and c2 in ")]}":
                        d2 -= 1
                    elif toks[j][0] == "punct" and c2 == "," and d2 == 0:
                        break
                    j += 1
                i = j
            start = toks[i][2]
        i += 1
    for h in heads:
        head = re.match(r"(TransformKind::\w+|\w+)", h)
        if not head or head.group(1) not in COVERED_ARMS:
            raise ExtractionError("Flattener::fold_expr has an arm `%s` that no contract of this unit covers (covered: %s)" % (h[:80], ", ".join(COVERED_ARMS)))
    return heads


def build(X):
    _check_arms(X)
    tk = X.type_item("prqlc/prqlc/src/ir/pl/extra.rs", "enum", "TransformKind").drop_attrs()
    tk.text = "pub type JoinSide2 = OpaqueT;\n" + tk.text.replace("side: JoinSide,", "side: JoinSide2,")

    # ---- Sort arm
    sa = X.arm_body(FLATTEN, "fold_expr", "TransformKind::Sort { by }", name="flatten_sort_arm")
    sa.rewrite_re("R5", r"\bself\.sort\.clone_from\(&by\)", "clone_from_sorts(&mut self.sort, &by)", count=None, why="Vec::clone_from")
    sa.rewrite_re("R5", r"return Ok\(input\);", "return Ok((input, None));", count=1, why="arm wrapped as a function: `return Ok(input)` (the sort transform is dropped) -> (input, None)")
    sa.rewrite_re("R5", r"\(input, TransformKind::Sort \{ by \}\)", "Ok((input, Some(by)))", count=1, why="arm wrapped as a function: the arm's value (input, Sort { by }) -> (input, Some(by))")
    sa.text = ("impl Flattener {\npub fn flatten_sort_arm(&mut self, t: TransformCallInput, by: Vec<ColumnSort>) -> (r: Result<(Expr, Option<Vec<ColumnSort>>), Error>)\n"
               "    ensures\n"
               "        // C03: after a sort, the order in effect for everything downstream is this sort (the most recent one wins) ..\n"
               "        r is Ok ==> final(self).sort@ == folded_sorts(by@), // @FS1\n"
               "        // .. the sort transform itself stays unless a group downstream resets the order (then it is dropped) ..\n"
               "        r is Ok ==> (r->Ok_0.1 is Some <==> !old(self).sort_undone) && (r->Ok_0.1 is Some ==> r->Ok_0.1->0@ == folded_sorts(by@)), // @FS2\n"
               "        // .. and what is upstream of the sort is folded before this sort takes effect\n"
               "        r is Ok ==> final(self).log@ == old(self).log@.push((*t.input, env_of(*old(self)))), // @FS3\n"
               "{\n    " + sa.text + "\n}\n}\n")
    sa.rewrites.append({"rule": "slice", "what": "the TransformKind::Sort arm of Flattener::fold_expr wrapped as a method returning (folded input, Some(by) | None)"})

    # ---- Group arm
    ga = X.arm_body(FLATTEN, "fold_expr", "TransformKind::Group { by, pipeline }", name="flatten_group_arm")
    m = re.search(r"\n\s*// If the pipeline simplified to a non-TransformCall.*$", ga.text, re.S)
    if not m:
        raise ExtractionError("Group arm: tail (lineage / result Expr) not where the unit expects it")
    ga.text = ga.text[:m.start()] + "\n"
    ga.rewrites.append({"rule": "R5", "what": "tail of the arm (choice of lineage, construction of the result Expr) dropped"})
    ga.rewrite_re("R5", r"!matches!\(by\.kind, ExprKind::Tuple\(ref fields\) if fields\.is_empty\(\)\)", "!is_empty_tuple(&by)", count=None, why="pattern with guard on an opaque payload")
    ga.rewrite("R5", "pipeline.kind.into_func().unwrap()", "into_func_unwrap(pipeline)", why="enum_as_inner accessor + unwrap")
    ga.rewrite("R5", "table_param.name.parse::<usize>().unwrap()", "parse_usize_unwrap(&table_param.name)", why="str::parse")
    ga.rewrite_re("R5", r"\bself\.sort\.clear\(\)", "clear_sorts(&mut self.sort)", count=None, why="Vec::clear")
    ga.text = ("impl Flattener {\npub fn flatten_group_arm(&mut self, t: TransformCallInput, by: Box<Expr>, pipeline: Box<Expr>) -> (r: Result<Expr, Error>)\n"
               "    ensures\n"
               "        // C03: group resets the order: what is upstream of a group with a non-empty key is folded with sort_undone set (its sorts are dropped) ..\n"
               "        r is Ok ==> (final(self).log@.len() == old(self).log@.len() + 2\n"
               "            && final(self).log@[old(self).log@.len() as int].0 == *t.input\n"
               "            && final(self).log@[old(self).log@.len() as int].1.sort_undone == (old(self).sort_undone || !empty_tuple(*by))), // @FG1\n"
               "        // .. the group's inner pipeline is folded with the group key as partition and NO order ..\n"
               "        r is Ok ==> ({ let e = final(self).log@[old(self).log@.len() as int + 1];\n"
               "            e.0 == *func_body(*pipeline) && e.1.partition == Some(by) && e.1.sort.len() == 0 }), // @FG2\n"
               "        // .. and nothing downstream of the group inherits an order or the partition\n"
               "        r is Ok ==> (final(self).sort@.len() == 0 && final(self).partition is None), // @FG3\n"
               "        r is Ok ==> final(self).sort_undone == old(self).sort_undone, // @FG4\n"
               "{\n    " + ga.text + "\n    Ok(pipeline)\n}\n}\n")
    ga.rewrites.append({"rule": "slice", "what": "the TransformKind::Group arm of Flattener::fold_expr wrapped as a method; returns the folded inner pipeline"})

    # ---- Window arm
    wa = X.arm_body(FLATTEN, "fold_expr", "TransformKind::Window {", name="flatten_window_arm")
    mw = re.search(r"\n\s*return Ok\(Expr \{.*$", wa.text, re.S)
    if not mw:
        raise ExtractionError("Window arm: tail (construction of the result Expr) not where the unit expects it")
    wa.text = wa.text[:mw.start()] + "\n"
    wa.rewrites.append({"rule": "R5", "what": "tail of the arm (construction of the result Expr with the window call's type / lineage) dropped"})
    wa.rewrite("R5", "pipeline.kind.into_func().unwrap()", "into_func_unwrap(pipeline)", why="enum_as_inner accessor + unwrap")
    wa.rewrite("R5", "table_param.name.parse::<usize>().unwrap()", "parse_usize_unwrap(&table_param.name)", why="str::parse")
    wa.rewrite_re("R5", r"\bWindowFrame \{ kind, range \}", "make_frame(kind, range)", count=1, why="struct literal of the (here opaque) frame")
    wa.rewrite_re("R5", r"\bWindowFrame::default\(\)", "default_frame()", count=None, why="Default::default")
    wa.text = ("impl Flattener {\npub fn flatten_window_arm(&mut self, t: TransformCallInput, kind: WindowKind, range: Range, pipeline: Box<Expr>) -> (r: Result<Expr, Error>)\n"
               "    ensures\n"
               "        // C04: what is upstream of `window` is folded with the frame that was in effect before ..\n"
               "        r is Ok ==> (final(self).log@.len() == old(self).log@.len() + 2 && final(self).log@[old(self).log@.len() as int] == (*t.input, env_of(*old(self)))), // @FW1\n"
               "        // .. the window's inner pipeline is folded with exactly the frame the window transform states, everything else as it was ..\n"
               "        r is Ok ==> ({ let e = final(self).log@[old(self).log@.len() as int + 1];\n"
               "            e.0 == *func_body(*pipeline) && e.1.window == frame_of(kind, range) && e.1.sort_undone == old(self).sort_undone && e.1.partition == old(self).partition }), // @FW2\n"
               "        // .. and nothing downstream of the window transform inherits its frame\n"
               "        r is Ok ==> final(self).window == default_frame_spec(), // @FW3\n"
               "{\n    " + wa.text + "\n    Ok(pipeline)\n}\n}\n")
    wa.rewrites.append({"rule": "slice", "what": "the TransformKind::Window arm of Flattener::fold_expr wrapped as a method; returns the folded inner pipeline"})

    # ---- every other transform: `kind => ..` (join, append, derive, select, filter, aggregate, take, loop)
    fo = X.fn(FLATTEN, "fold_expr", after="impl PlFold for Flattener")
    mo = re.search(r"\n\s*kind => ", fo.text)
    if not mo:
        raise ExtractionError("fold_expr: the arm `kind => ..` for the transforms without special handling was not found")
    rest = fo.text[mo.end():]
    otoks = code_tokens(rest)
    opener = rest[otoks[0][1]]
    if opener not in "({":
        raise ExtractionError("fold_expr: the arm `kind => ..` is neither a block nor a tuple expression")
    oe = match_brace(rest, otoks, 0, opener, {"(": ")", "{": "}"}[opener])
    fo.name = "flatten_other_arm"
    fo.text = rest[:otoks[oe][2]]
    fo.rewrites.append({"rule": "slice", "what": "the arm `kind => ..` of the match over the transform kinds in Flattener::fold_expr wrapped as a method returning (folded input, folded kind)"})
    fo.rewrite_re("R5", r"\bself\.sort\.clone\(\)", "clone_sorts(&self.sort)", count=None, why="Vec::clone")
    fo.text = ("impl Flattener {\npub fn flatten_other_arm(&mut self, t: TransformCallInput, kind: TransformKind) -> (r: Result<(Expr, TransformKind), Error>)\n"
               "    ensures\n"
               "        // what is upstream is folded first, with what was in effect ..\n"
               "        r is Ok ==> final(self).log@ == old(self).log@.push((*t.input, env_of(*old(self)))), // @FO1\n"
               "        // C03: .. and folding the payload of the transform - the joined / appended sub-pipeline - does not change the sort in effect: a join keeps the order of its\n"
               "        // left input whatever order the right input has\n"
               "        r is Ok ==> final(self).sort@ == final(self).kind_entry_sort@, // @FO2\n"
               "{\n    Ok(" + fo.text + ")\n}\n}\n")

    # ---- tail: the transform call that is built
    # from the comment that introduces the statement(s) computing the call's sort to the end of the TransformCall literal (the comment is only an anchor: comments are not code)
    try:
        ts = X.slice(FLATTEN, "fold_expr", "// In case we're appending or joining another pipeline", "sort,\n                })", name="flatten_call_slice")
    except ExtractionError:
        ts = X.slice(FLATTEN, "fold_expr", "let sort = if matches!(kind, TransformKind::Join", "sort,\n                })", name="flatten_call_slice")
    ts.rewrite_re("R5", r"\bself\.sort\.clear\(\)", "clear_sorts(&mut self.sort)", count=None, why="Vec::clear")
    ts.rewrite_re("R5", r"\bvec!\[\]", "Vec::new()", count=None, why="empty vec! literal")
    ts.rewrite_re("R5", r"\bself\.sort\.clone\(\)", "clone_sorts(&self.sort)", count=None, why="Vec::clone")
    ts.rewrite_re("R5", r"\bself\.partition\.clone\(\)", "clone_partition(&self.partition)", count=None, why="Option<Box<Expr>>::clone")
    ts.rewrite_re("R5", r"\bself\.window\.clone\(\)", "clone_frame(&self.window)", count=None, why="WindowFrame::clone")
    ts.rewrite_re("R5", r"\bBox::new\(", "box_new(", count=None, why="Box::new")
    ts.text = ("impl Flattener {\npub fn flatten_call_slice(&mut self, input: Expr, kind: TransformKind) -> (r: ExprKind)\n"
               "    ensures\n"
               "        // C03: every transform inherits the sort in effect - except that the call of a join / append carries none of its own\n"
               "        r is TransformCall && r->TransformCall_0.sort@ == (if kind is Join || kind is Append { Seq::<ColumnSort>::empty() } else { old(self).sort@ }), // @FT1\n"
               "        r->TransformCall_0.partition == old(self).partition && r->TransformCall_0.frame == old(self).window && *r->TransformCall_0.input == input && *r->TransformCall_0.kind == kind, // @FT2\n"
               "        // C03 / C01: building the call leaves the sort in effect (and partition / frame) as it is: the transforms that FOLLOW a join still inherit the order of its left input\n"
               "        final(self).sort@ == old(self).sort@ && final(self).partition == old(self).partition && final(self).window == old(self).window, // @FT3\n"
               "{\n    " + ts.text + "\n}\n}\n")
    ts.rewrites.append({"rule": "slice", "what": "`let sort = ..;` and the ExprKind::TransformCall(..) expression that follows it, wrapped as a method"})
    return PRELUDE + tk.text + "\n" + SHIM2 + sa.text + "\n" + ga.text + "\n" + wa.text + "\n" + fo.text + "\n" + ts.text + "\n} // verus!\nfn main() {}\n"


# ----------------------------------------------------------------------------- replay on the real compiler
SETUP = ("create table a(id integer, x integer, g text); insert into a values (1,10,'p'),(2,20,'p'),(3,30,'q'),(4,40,'q'),(5,50,'r'),(6,5,'r');"
         "create table b(id integer, v integer); insert into b values (1,100),(2,200),(3,300),(4,400),(5,500),(6,600);")
_A = [(1, 10, 'p'), (2, 20, 'p'), (3, 30, 'q'), (4, 40, 'q'), (5, 50, 'r'), (6, 5, 'r')]
_BYX = sorted(_A, key=lambda r: -r[1])

# (program, expected rows): the order given by `sort` in front of a join is the order a following take / window sees
CASES = [
    ("from a\nsort {-x}\njoin b (==id)\ntake 2\nselect {a.id}\n", [(r[0],) for r in _BYX[:2]], True),
    ("from a\nsort {-x}\njoin b (==id)\nderive {r = row_number this}\nselect {a.id, r}\nsort a.id\n", sorted((r[0], i + 1) for i, r in enumerate(_BYX)), True),
    ("from a\nselect {id, x, g}\nsort {-x}\njoin b (==id)\ntake 2\ngroup a.g (aggregate {n = count this, t = sum a.x})\nsort g\n", [('q', 1, 40), ('r', 1, 50)], True),
    # the order of the RIGHT input of a join does not replace the order in effect
    ("from a\nselect {id, x, g}\nsort {-x}\njoin (from b | sort v) (==id)\ntake 2\ngroup a.g (aggregate {n = count this, t = sum a.x})\nsort g\n", [('q', 1, 40), ('r', 1, 50)], True),
    ("from a\nsort {-x}\ntake 3\nselect {id}\n", [(r[0],) for r in _BYX[:3]], True),
    ("from a\nsort x\nderive {r = row_number this}\nfilter r <= 2\nselect {id}\nsort id\n", [(1,), (6,)], True),
    # an aggregation inside a joined sub-pipeline does not switch off the sorts of the outer pipeline
    ("from b\njoin (from a | aggregate {m = max x}) (b.v > m)\nselect {b.id, b.v, m}\nsort {-v}\ntake 3\n", [(6, 600, 50), (5, 500, 50), (4, 400, 50)], True),
    # a window function written inside a filter sees the order in effect
    ("from a\nsort {-x}\nfilter (row_number this) <= 2\nselect {id}\nsort id\n", [(4,), (5,)], True),
    ("from a\ngroup g (sort {-x} | filter (row_number this) <= 1)\nselect {id}\nsort id\n", [(2,), (4,), (5,)], True),
    # a select (or derive) behind a sort leaves the order in effect: the window functions after it are ordered as without it (round-7 seed C06-14)
    ("from a\nselect {id, x}\nsort {-x}\nselect {id, x}\nderive {r = row_number this, prev = lag 1 id}\nselect {id, r, prev}\nsort id\n",
     sorted((r[0], i + 1, (_BYX[i - 1][0] if i else None)) for i, r in enumerate(_BYX)), True),
    ("from a\nsort {-x}\nselect {id, y = x * 2}\nderive {r = row_number this}\nselect {id, r}\nsort id\n", sorted((r[0], i + 1) for i, r in enumerate(_BYX)), True),
    # the order of an APPENDED sub-pipeline does not replace the order in effect either (its columns are not even visible in the top pipeline)
    ("from a\nselect {id, x}\nsort {-x}\nappend (from b | select {id, v = v * 2} | sort v)\nderive {rn = row_number this}\nfilter rn <= 2\nselect {id, x}\nsort {-x}\n", None, True),
]


def _try(src, exp, ordered):
    import replaylib
    ok, sql = replaylib.compile_prql(src, "sql.sqlite")
    if not ok:
        return {"input": src, "expected": exp, "observed": sql[:400], "failing": sql.startswith("PANIC"), "replay_kind": "rows"}
    ok2, rows = replaylib.sqlite_rows(SETUP, sql)
    if not ok2:
        return {"input": src, "expected": exp, "observed": "sqlite error: %s" % rows, "failing": True, "replay_kind": "rows", "sql": sql}
    rows = [tuple(r) for r in rows]
    if exp is None:   # only: the program compiles to SQL that binds and runs
        return {"input": src, "expected": "SQL that SQLite accepts", "observed": [list(r) for r in rows], "failing": False, "replay_kind": "rows", "sql": sql}
    return {"input": src, "expected": [list(r) for r in exp], "observed": [list(r) for r in rows], "failing": rows != exp, "replay_kind": "rows", "sql": sql}


def replay(failure):
    for src, exp, ordered in CASES:
        r = _try(src, exp, ordered)
        if r["failing"]:
            return r
    return {"failing": False}


def rerun(doc):
    exp = doc["expected"]
    return _try(doc["input"], [tuple(r) for r in exp] if isinstance(exp, list) else None, True)


SWEEP_DOC = ("programs where a sort is followed by a join and then by a take, a window function or a grouped aggregate of the taken rows (and two programs without a join): "
             "compiled by the real prqlc, run on SQLite, rows compared with the rows computed from the tables in Python")


def sweep():
    out = []
    for src, exp, ordered in CASES:
        r = _try(src, exp, ordered)
        r["obligation"] = "flatten_sort.FT3"
        out.append(r)
    return out
