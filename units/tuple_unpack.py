"""Unit tuple_unpack: the parser's check that `..` is the last field of a tuple type never indexes outside the field list - also for the empty tuple type `{}`.

Real code under contract:
  prqlc/prqlc-parser/src/parser/types.rs  type_expr: body of the closure `.try_map(|fields, span| { .. })` of the tuple branch (slice)
  prqlc/prqlc-parser/src/parser/pr/types.rs  enum TyTupleField (verbatim)
"""
import re

import common_rq
from extract import ExtractionError, code_tokens, match_brace

TYPES_RS = "prqlc/prqlc-parser/src/parser/types.rs"
PR_TYPES = "prqlc/prqlc-parser/src/parser/pr/types.rs"

LABELS = ["TU1", "TU2"]
FUNCTIONS = ["check_unpack_last"]
RLIMIT = 60

ASSUMED = [
    {"what": "opaque external types (Ty, the span, chumsky's Rich error)", "keys": ["pub struct Opaque"]},
    {"what": "std slices: `&v[0..n]` and `v.split_at(n)` PANIC unless n <= v.len() (precondition), usize::saturating_sub is max(a - b, 0); "
             "`s.iter().find_map(|f| f.as_wildcard())` is first_wildcard(): Some exactly when a field of s is a Wildcard; the error value is built by external functions",
     "keys": ["fn vec_prefix", "fn vec_split_at", "fn usize_saturating_sub", "fn first_wildcard", "fn err_span_of", "fn rich_custom"]},
]
TRUSTED = [
    "oracle (C12): for EVERY list of fields the parser produced - the empty one included (`type t = {}`, `<[{}]>`) - the check returns the fields or an error; it never panics",
    "oracle (TU1): the fields are rejected exactly when a `..` stands anywhere but in the last position",
    "the slice drops the chumsky combinators around the closure (how the fields are parsed)",
]

PRELUDE = r"""
#![allow(unused_imports, dead_code, unused_variables, unused_mut, unused_parens, non_snake_case)]
use vstd::prelude::*;
use std::result::Result::*;
verus! {
""" + common_rq.OPAQUE.replace("pub struct SpanMarker; pub type Span = Opaque<SpanMarker>;", "pub type Span = OpaqueT;") + r"""
pub type Ty = OpaqueT;
pub type RichErr = OpaqueT;
#[verifier::external_body]
pub fn vec_prefix<T>(v: &Vec<T>, n: usize) -> (r: &[T]) requires n <= v@.len(), ensures r@ == v@.subrange(0, n as int), forall|i: int| 0 <= i < n ==> #[trigger] v@[i] == r@[i], { unimplemented!() }
#[verifier::external_body]
pub fn vec_split_at<T>(v: &Vec<T>, n: usize) -> (r: (&[T], &[T])) requires n <= v@.len(), ensures r.0@ == v@.subrange(0, n as int), r.1@ == v@.subrange(n as int, v@.len() as int), forall|i: int| 0 <= i < n ==> #[trigger] v@[i] == r.0@[i], { unimplemented!() }
#[verifier::external_body]
pub fn usize_saturating_sub(a: usize, b: usize) -> (r: usize) ensures r == (if a >= b { a - b } else { 0 }), { unimplemented!() }
"""

SHIMS = r"""
#[verifier::external_body]
pub fn first_wildcard(s: &[TyTupleField]) -> (r: Option<&Option<Ty>>)
    ensures r is Some <==> exists|i: int| 0 <= i < s@.len() && #[trigger] s@[i] is Wildcard,
{ unimplemented!() }
#[verifier::external_body] pub fn err_span_of(unpack: &Option<Ty>, span: Span) -> Span { unimplemented!() }
#[verifier::external_body] pub fn rich_custom(span: Span) -> RichErr { unimplemented!() }
"""


def build(X):
    tf = X.type_item(PR_TYPES, "enum", "TyTupleField").drop_attrs()
    f = X.fn(TYPES_RS, "type_expr")
    src = f.text
    m = re.search(r"\.try_map\(\|fields, span\| \{", src)
    if not m:
        raise ExtractionError("type_expr: the closure `.try_map(|fields, span| { .. })` of the tuple branch is not where the unit expects it")
    toks = code_tokens(src)
    k = next(i for i, t in enumerate(toks) if t[1] == m.end() - 1)
    e = toks[match_brace(src, toks, k)][1]
    f.name = "check_unpack_last"
    f.text = src[m.end():e]
    f.rewrites.append({"rule": "slice", "what": "body of the closure `.try_map(|fields, span| { .. })` (tuple branch of type_expr) wrapped as fn check_unpack_last(fields, span)"})
    f.rewrite_re("R5", r"(\w+)\.len\(\)\.saturating_sub\((\w+)\)", r"usize_saturating_sub(\1.len(), \2)", count=None, why="usize::saturating_sub")
    f.rewrite_re("R5", r"&(\w+)\[0\.\.((?:[^\[\]]|\([^()]*\))*)\]", r"vec_prefix(&\1, \2)", count=None, why="slice of a Vec by a range (panics when the end is past the length)")
    f.rewrite_re("R5", r"\b(\w+)\.split_at\(", r"vec_split_at(&\1, ", count=None, why="slice::split_at (panics when mid > len)")
    f.rewrite_re("R5", r"(\w+)\.iter\(\)\.find_map\(\|f\| f\.as_wildcard\(\)\)", r"first_wildcard(\1)", count=None, why="Iterator::find_map over the fields")
    f.rewrite_re("R5", r"unpack\.as_ref\(\)\.and_then\(\|s\| s\.span\)\.unwrap_or\(span\)", "err_span_of(unpack, span)", count=None, why="span of the error")
    f.rewrite_re("R5", r"Rich::custom\(\s*(\w+),\s*\"[^\"]*\",?\s*\)", r"rich_custom(\1)", count=None, why="chumsky error value")
    f.text = ("pub fn check_unpack_last(fields: Vec<TyTupleField>, span: Span) -> (r: Result<Vec<TyTupleField>, RichErr>)\n"
              "    ensures\n"
              "        // rejected exactly when a `..` stands in front of the last field\n"
              "        r is Err <==> exists|i: int| 0 <= i < fields@.len() - 1 && #[trigger] fields@[i] is Wildcard, // @TU1\n"
              "        r is Ok ==> r->Ok_0 == fields, // @TU2\n"
              "{\n    " + f.text + "\n}\n")
    return PRELUDE + tf.text + "\n" + SHIMS + f.text + "\n} // verus!\nfn main() {}\n"


# ----------------------------------------------------------------------------- replay on the real compiler
INPUTS = ["type empty = {}\n", "module default_db { let tbl <[{}]> }\nfrom tbl\ntake 3\n", "let f = func a <{}> -> 1\nfrom t\n", "type t = {a = int, ..}\n", "type t = {.., a = int}\n", "type t = {..}\n"]


def _try(src):
    import replaylib
    ok, out = replaylib.compile_prql(src, "sql.sqlite")
    return {"input": src, "expected": "SQL or a list of errors (no panic)", "observed": out[:300], "failing": (not ok) and out.startswith("PANIC"), "replay_kind": "compile"}


def replay(failure):
    for src in INPUTS:
        r = _try(src)
        if r["failing"]:
            return r
    return {"failing": False}


def rerun(doc):
    return _try(doc["input"])


SWEEP_DOC = "tuple types with no field, one field, an unpack in the last / the first position, in a type declaration, a table declaration and a function parameter: compiled by the real prqlc; SQL or errors are expected, never a panic"


def sweep():
    out = []
    for src in INPUTS:
        r = _try(src)
        r["obligation"] = "tuple_unpack.check_unpack_last.precondition"
        out.append(r)
    return out
