"""Unit table_instance: an instance of a table is built from the declaration of THAT table.

Real code under contract:
  prqlc/prqlc/src/semantic/lowering.rs  Lowerer::create_a_table_instance: the statement `let table = ..;` (slice: which declaration of the table buffer the instance is made from)
  prqlc/prqlc/src/ir/rq/ids.rs          TId::get (whole)
"""
import re

import common_rq
from extract import ExtractionError

LOWERING = "prqlc/prqlc/src/semantic/lowering.rs"
RQ_IDS = "prqlc/prqlc/src/ir/rq/ids.rs"

LABELS = ["TI1", "TI1i", "TG1"]
FUNCTIONS = ["instance_source", "get"]
RLIMIT = 30

ASSUMED = [
    {"what": "opaque external types", "keys": ["pub struct Opaque"]},
    {"what": "TableDecl is the skeleton {id, rest}; `t.id == tid` on TId compares the numbers (tid_eq)", "keys": ["fn tid_eq", "struct TableDecl", "fn unreachable_none"]},
]
TRUSTED = [
    "oracle (C16): the columns of a table instance are made from the columns of the table it is an instance of - the declaration in the table buffer whose id is the "
    "instance's `source`; the position of a declaration in the buffer says nothing about its id (a sub-pipeline gets its id before the relations inside it are pushed)",
    "precondition (not verified: the Lowerer's invariant over lower_table_ref / lower_relation): a declaration with that id has been pushed to the table buffer",
    "the slice drops the rest of create_a_table_instance (fresh column ids per column: ids_names IG1-3; the mapping node -> input columns)",
]

PRELUDE = r"""
#![allow(unused_imports, dead_code, unused_variables, unused_mut, unused_parens, non_snake_case)]
use vstd::prelude::*;
verus! {
""" + common_rq.OPAQUE


def build(X):
    tid = X.type_item(RQ_IDS, "struct", "TId").drop_attrs()
    tid.rewrite("R6", "pub struct TId(usize);", "pub struct TId(pub usize);", why="field visibility (spec access)")
    tid.text = "#[derive(Clone, Copy)]\n" + tid.text
    g = X.fn(RQ_IDS, "get", after="impl TId").pub_all()
    g.ret_name("r")
    g.contract("""
        ensures r == self.0, // @TG1
    """)
    f = X.fn(LOWERING, "create_a_table_instance")
    m = re.search(r"\n(\s*(?://[^\n]*\n\s*)*)let table = (.*?);\n", f.text, re.S)
    if not m:
        raise ExtractionError("create_a_table_instance: statement `let table = ..;` not found")
    expr = m.group(2)
    f.rewrites.append({"rule": "slice", "what": "the initialiser of `let table = ..;` of create_a_table_instance wrapped as fn instance_source(&self, tid) -> &TableDecl; the rest of the function is dropped"})
    mf = re.match(r"self\.table_buffer\.iter\(\)\.find\(\|t\| (.*?)\)\.unwrap\(\)$", expr.strip(), re.S)
    if mf:
        pred = re.sub(r"\bt\.id == tid\b", "tid_eq(&t.id, &tid)", mf.group(1))
        body = ("let mut verif_k: usize = 0;\n        while verif_k < self.table_buffer.len()\n"
                "            invariant verif_k <= self.table_buffer@.len(), forall|j: int| 0 <= j < verif_k ==> (#[trigger] self.table_buffer@[j]).id.0 != tid.0, // @TI1i\n"
                "            decreases self.table_buffer@.len() - verif_k,\n        {\n"
                "            let t = &self.table_buffer[verif_k];\n            if %s { return t; }\n            verif_k = verif_k + 1;\n        }\n"
                "        unreachable_none()" % pred)
        f.rewrites.append({"rule": "R14", "what": "`self.table_buffer.iter().find(|t| P).unwrap()` desugared to the loop it is (first element with P); unwrap of None is a call of a function "
                           "whose precondition is false; `t.id == tid` is tid_eq (R5)"})
    else:
        body = expr + "  // @TI1i"
    f.text = ("pub struct TableDecl { pub id: TId, pub rest: OpaqueT }\n"
              "#[verifier::external_body] pub fn tid_eq(a: &TId, b: &TId) -> (r: bool) ensures r == (a.0 == b.0), { unimplemented!() }\n"
              "#[verifier::external_body] pub fn unreachable_none<T>() -> T requires false, { unimplemented!() }\n"
              "pub struct Lowerer { pub table_buffer: Vec<TableDecl> }\n"
              "impl Lowerer {\n"
              "pub fn instance_source(&self, tid: TId) -> (table: &TableDecl)\n"
              "    requires exists|i: int| 0 <= i < self.table_buffer@.len() && (#[trigger] self.table_buffer@[i]).id.0 == tid.0,\n"
              "    ensures\n"
              "        // C16: the instance is made from the declaration of the table it refers to\n"
              "        table.id.0 == tid.0, // @TI1\n"
              "{\n        " + body + "\n}\n}\n")
    return PRELUDE + tid.text + "\nimpl TId {\n" + g.text + "\n}\n" + f.text + "\n} // verus!\nfn main() {}\n"


# ----------------------------------------------------------------------------- replay on the real compiler + SQLite: relations pulled out inside a pulled-out relation
SETUP = ("create table orders(id integer, customer_id integer); insert into orders values (1, 10), (2, 20), (3, 30);"
         "create table payments(customer_id integer, amount integer); insert into payments values (10, 15), (20, 5), (30, 11);")
CASES = [
    ("from orders\njoin side:left p = (from s\"SELECT customer_id, SUM(amount) AS paid FROM payments GROUP BY customer_id\" | filter paid > 10) (orders.customer_id == p.customer_id)\n"
     "select {orders.id, p.paid}\nsort id\n", [(1, 15), (2, None), (3, 11)]),
    ("from orders\njoin p = (from payments | join q = (from payments | filter amount > 10) (payments.customer_id == q.customer_id) | select {payments.customer_id, q.amount}) "
     "(orders.customer_id == p.customer_id)\nselect {orders.id, p.amount}\nsort id\n", [(1, 15), (3, 11)]),
]


def _try(src, exp):
    import replaylib
    ok, sql = replaylib.compile_prql(src, "sql.sqlite")
    if not ok:
        return {"input": src, "expected": [list(r) for r in exp], "observed": sql[:300], "failing": True, "replay_kind": "rows"}
    ok2, rows = replaylib.sqlite_rows(SETUP, sql)
    rows = [tuple(r) for r in rows] if ok2 else rows
    return {"input": src, "expected": [list(r) for r in exp], "observed": [list(r) for r in rows] if ok2 else "sqlite error: %s" % rows, "failing": (not ok2) or rows != exp,
            "replay_kind": "rows", "sql": sql}


def replay(failure):
    for src, exp in CASES:
        r = _try(src, exp)
        if r["failing"]:
            return r
    return {"failing": False}


def rerun(doc):
    return _try(doc["input"], [tuple(r) for r in doc["expected"]])


SWEEP_DOC = "join operands that are sub-pipelines containing further pulled-out relations (an s-string table, a nested join): compiled for SQLite by the real prqlc and executed"


def sweep():
    out = []
    for src, exp in CASES:
        r = _try(src, exp)
        r["obligation"] = "table_instance.TI1"
        out.append(r)
    return out
