"""Unit lower_ident: a reference that the resolver bound to a node is lowered to the column of that node, or it is an error - never passed to the database as text.

Real code under contract:
  prqlc/prqlc/src/semantic/lowering.rs  Lowerer::lower_expr: body of the arm `pl::ExprKind::Ident(ident) =>` (slice)
                                        Lowerer::lookup_cid (whole function)
"""
import re

import common_rq
from extract import ExtractionError

LOWERING = "prqlc/prqlc/src/semantic/lowering.rs"

LABELS = ["LI1", "LI2", "LI3", "LI4", "LK0", "LK1", "LK2"]
FUNCTIONS = ["lower_ident_arm", "lookup_cid"]
RLIMIT = 60

ASSUMED = [
    {"what": "opaque external types", "keys": ["pub struct Opaque"]},
    {"what": "Lowerer is the shim {node_mapping, root_mod}; HashMap<usize, LoweredTarget> is the shim NodeMap with a ghost Map view (get); the column table of an input "
             "(HashMap<RelationColumn, (CId, bool)>) is the shim ColMap keyed by the column's name; String::clone keeps the text; the span table is opaque",
     "keys": ["struct NodeMap", "fn view", "fn get", "struct ColMap", "fn clone_string", "fn span_of", "struct RootShim"]},
    {"what": "error construction (Error::new_simple / new_bug / new_assert with span and hints, format!) is opaque; `.with_span(span)` on a Result keeps Ok / Err and the Ok value",
     "keys": ["fn opaque_error", "fn with_span_r", "fn panics"]},
    {"what": "pl::Expr is the shim {kind, ty, target_id, span, rest}; `expr.ty.as_ref().is_some_and(|x| x.kind.is_tuple())` is the uninterpreted ty_is_tuple(); find_selected_all "
             "(the tuple case) is external without a contract; vec![InterpolateItem::String(name)] is the opaque sstring_of()",
     "keys": ["fn ty_is_tuple", "spec fn is_tuple_ty", "fn find_selected_all", "fn sstring_of"]},
]
TRUSTED = [
    "oracle (C10): an identifier that the resolver bound to a node (target_id) is lowered to the column that node became; when no column is recorded for it the result is an "
    "error; the text of the name is handed to the database only for an identifier WITHOUT a target (the documented fallback for unresolved names); looking a column up "
    "changes nothing in the Lowerer and never panics",
    "the slice drops the other arms of lower_expr",
]

PRELUDE = r"""
#![allow(unused_imports, dead_code, unused_variables, unused_mut, unused_parens, non_snake_case)]
use vstd::prelude::*;
use std::result::Result::*;
verus! {
""" + common_rq.OPAQUE

SHIMS = r"""
use rq::CId;
#[verifier::external_body] pub fn opaque_error() -> Error { unimplemented!() }
#[verifier::external_body] pub fn panics() -> ! requires false, { unimplemented!() }
#[verifier::external_body]
pub fn with_span_r<T>(r: Result<T, Error>, span: Option<Span>) -> (o: Result<T, Error>)
    ensures o is Ok <==> r is Ok, o is Ok ==> o->Ok_0 == r->Ok_0,
{ unimplemented!() }
#[verifier::external_body] pub fn clone_string(s: &String) -> (r: String) ensures r@ == s@, { unimplemented!() }

pub enum RelationColumn { Single(Option<String>), Wildcard }
#[verifier::external_body] pub struct ColMap { _p: u8 }
impl ColMap {
    // the columns of an input by name (None: the unnamed column)
    pub uninterp spec fn view(&self) -> Map<Option<Seq<char>>, (CId, bool)>;
    pub uninterp spec fn wildcard(&self) -> Option<(CId, bool)>;
    #[verifier::external_body]
    pub fn get(&self, k: &RelationColumn) -> (r: Option<&(CId, bool)>)
        ensures
            k is Single ==> (match r { Some(t) => self.view().contains_key(opt_text(k->Single_0)) && *t == self.view()[opt_text(k->Single_0)],
                                       None => !self.view().contains_key(opt_text(k->Single_0)) }),
            k is Wildcard ==> (match r { Some(t) => self.wildcard() == Some(*t), None => self.wildcard() is None }),
    { unimplemented!() }
}
pub open spec fn opt_text(o: Option<String>) -> Option<Seq<char>> { match o { Some(s) => Some(s@), None => None } }
pub enum LoweredTarget { Compute(CId), Input(ColMap) }
#[verifier::external_body] pub struct NodeMap { _p: u8 }
impl NodeMap {
    pub uninterp spec fn view(&self) -> Map<usize, LoweredTarget>;
    #[verifier::external_body]
    pub fn get(&self, k: &usize) -> (r: Option<&LoweredTarget>)
        ensures match r { Some(t) => self.view().contains_key(*k) && *t == self.view()[*k], None => !self.view().contains_key(*k) },
    { unimplemented!() }
}
pub struct RootShim { pub rest: OpaqueT }
#[verifier::external_body] pub fn span_of(root: &RootShim, id: &usize) -> Option<Span> { unimplemented!() }
pub struct Lowerer { pub node_mapping: NodeMap, pub root_mod: RootShim }

pub mod pl {
    use super::*;
    pub struct Ident { pub path: Vec<String>, pub name: String }
    pub enum ExprKind { Ident(Ident), Other(OpaqueT) }
    pub struct Expr { pub kind: ExprKind, pub ty: Option<OpaqueT>, pub target_id: Option<usize>, pub span: Option<Span>, pub rest: OpaqueT }
}
pub uninterp spec fn is_tuple_ty(t: Option<OpaqueT>) -> bool;
#[verifier::external_body] pub fn ty_is_tuple(t: &Option<OpaqueT>) -> (r: bool) ensures r == is_tuple_ty(*t), { unimplemented!() }
#[verifier::external_body] pub fn sstring_of(name: String) -> Vec<rq::InterpolateItem> { unimplemented!() }
impl Lowerer {
    #[verifier::external_body]
    pub fn find_selected_all(&mut self, expr: pl::Expr, except: Option<pl::Expr>) -> (r: Result<Vec<CId>, Error>)
        ensures final(self).node_mapping.view() == old(self).node_mapping.view(),
    { unimplemented!() }
}
// what looking the column of node `id` up by `name` yields (None: an error)
pub open spec fn column_of(m: Map<usize, LoweredTarget>, id: usize, name: Option<Seq<char>>) -> Option<CId> {
    if !m.contains_key(id) { None::<CId> }
    else { match m[id] {
        LoweredTarget::Compute(c) => Some(c),
        LoweredTarget::Input(cols) => if name is Some && cols.view().contains_key(name) { Some(cols.view()[name].0) } else { None::<CId> },
    } }
}
"""


def build(X):
    model = common_rq.rq_module(X)

    # ---------------------------------------------------------------- lookup_cid
    lk = X.fn(LOWERING, "lookup_cid").drop_logging().pub_all()
    lk.rewrite("R6", "Result<CId>", "Result<CId, Error>")
    lk.rewrite_re("R5", r"Error::new_simple\(\s*\"[^\"]*\",?\s*\)\s*\.with_span\(self\.root_mod\.span_map\.get\(&id\)\.cloned\(\)\)\s*\.push_hint\(\"[^\"]*\"\)", "opaque_error()", count=None,
                  why="error construction (text, span from the span table, hint) is opaque")
    lk.rewrite_re("R5", r"return Err\(Error::new_bug\(\d+\)\)\?;", "return Err(opaque_error());", count=None, why="`return Err(e)?` is `return Err(e.into())`; the error is opaque")
    lk.rewrite_re("R5", r"Error::new_(?:assert|simple)\(format!\((?:[^()]|\((?:[^()]|\([^()]*\))*\))*\)\)(?:\s*\.with_span\((?:[^()]|\([^()]*\))*\))?", "opaque_error()", count=None,
                  why="error construction with a formatted text is opaque")
    lk.rewrite_re("R5", r"\bpanic!\((?:[^()]|\([^()]*\))*\)", "panics()", count=None, why="panic!(..) is a call of a function whose precondition is false (C12)")
    lk.rewrite_re("R5", r"\bv\.clone\(\)", "clone_string(v)", count=None, why="String::clone")
    lk.ret_name("r")
    lk.contract("""
        ensures
            // looking a column up changes nothing
            *final(self) == *old(self), // @LK0
            // C10: a node for which no column is recorded is an error - also an input that has no column of that name (C12: an error, not a panic)
            r is Ok <==> column_of(old(self).node_mapping.view(), id, (match name { Some(n) => Some(n@), None => None::<Seq<char>> })) is Some, // @LK1
            r is Ok ==> Some(r->Ok_0) == column_of(old(self).node_mapping.view(), id, (match name { Some(n) => Some(n@), None => None::<Seq<char>> })), // @LK2
    """)

    # ---------------------------------------------------------------- the Ident arm of lower_expr
    arm = X.arm_body(LOWERING, "lower_expr", "pl::ExprKind::Ident(ident) =>", name="lower_ident_arm")
    arm.drop_logging()
    arm.rewrite_re("R5", r"\bexpr\.ty\.as_ref\(\)\.is_some_and\(\|x\| x\.kind\.is_tuple\(\)\)", "ty_is_tuple(&expr.ty)", count=None,
                   why="the resolved type is a tuple: uninterpreted")
    arm.rewrite_re("R5", r"Error::new_simple\(\"[^\"]*\"\)\s*\.with_span\(span\)", "opaque_error()", count=None, why="error construction is opaque")
    arm.rewrite_re("R5", r"vec!\[InterpolateItem::String\(ident\.name\)\]", "sstring_of(ident.name)", count=None, why="the s-string that is the bare name")
    arm.desugar_option_closures()
    arm.rewrite_re("R5", r"(self\.lookup_cid\((?:[^()]|\([^()]*\))*\))\.with_span\(span\)", r"with_span_r(\1, span)", count=None, why="WithErrorInfo::with_span on a Result")
    arm.rewrite_re("R8", r"(self\.lookup_cid\((?:[^()]|\([^()]*\))*\))\.ok\(\)", r"(match \1 { Ok(verif_v) => Some(verif_v), Err(_) => None })", count=None, why="Result::ok is this match")
    arm.text = ("impl Lowerer {\n" + lk.text + "\n"
                "pub fn lower_ident_arm(&mut self, expr: pl::Expr, ident: pl::Ident, span: Option<Span>) -> (r: Result<rq::ExprKind, Error>)\n"
                "    ensures\n"
                "        // C10: a reference that is bound to a node is the column recorded for that node ..\n"
                "        (!is_tuple_ty(expr.ty) && expr.target_id is Some && r is Ok) ==> (column_of(old(self).node_mapping.view(), expr.target_id->0, Some(ident.name@)) is Some\n"
                "            && r->Ok_0 == rq::ExprKind::ColumnRef(column_of(old(self).node_mapping.view(), expr.target_id->0, Some(ident.name@))->0)), // @LI1\n"
                "        // .. and an error when there is none: it is not handed to the database as text\n"
                "        (!is_tuple_ty(expr.ty) && expr.target_id is Some && column_of(old(self).node_mapping.view(), expr.target_id->0, Some(ident.name@)) is None) ==> r is Err, // @LI2\n"
                "        // the name itself reaches the database only for an identifier without a target\n"
                "        (r is Ok && r->Ok_0 is SString) ==> (expr.target_id is None && !is_tuple_ty(expr.ty)), // @LI3\n"
                "        final(self).node_mapping.view() == old(self).node_mapping.view(), // @LI4\n"
                "{\n    Ok({\n" + arm.text + "\n    })\n}\n}\n")
    arm.rewrites.append({"rule": "slice", "what": "body of the arm `pl::ExprKind::Ident(ident) =>` of Lowerer::lower_expr wrapped as fn lower_ident_arm(&mut self, expr, ident, span) -> "
                         "Result<rq::ExprKind> (the arm's value is the Ok value; `expr` is the matched expression whose `kind` has been moved into `ident`)"})
    return PRELUDE + model + SHIMS + arm.text + "\n} // verus!\nfn main() {}\n"


# ----------------------------------------------------------------------------- replay on the real compiler: programs that must be REJECTED
REJECT = [
    # a range argument must not leave `start` / `end` behind as names of the frame: the reference has a target but no column
    "from x\nselect {a}\nfilter (a | in 1..5) && start > 2\n",
    "from x\nselect {a}\nfilter (a | in 1..5) && end > 2\n",
    # a column that was excluded from a let-table is not a column of that table (C12: an error, not a panic)
    "let t = (from a | select !{x})\nfrom t\nselect {id, x}\n",
]


def _reject(src):
    import replaylib
    ok, out = replaylib.compile_prql(src, "sql.sqlite")
    return {"input": src, "expected": "an error (the reference has no column)", "observed": out[:300], "failing": ok or out.startswith("PANIC"), "replay_kind": "reject"}


def replay(failure):
    for src in REJECT:
        r = _reject(src)
        if r["failing"]:
            return r
    return {"failing": False}


def rerun(doc):
    return _reject(doc["input"])


SWEEP_DOC = "references that are bound to a node without a column: the real prqlc must answer with an error, never with SQL or a panic"


def sweep():
    out = []
    for src in REJECT:
        r = _reject(src)
        r["obligation"] = "lower_ident.LK1" if "let t" in src else "lower_ident.LI2"
        out.append(r)
    return out
