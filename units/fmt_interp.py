"""Unit fmt_interp: the text the formatter writes for a string part of an s- / f-string reads back as that part.

Real code under contract:
  prqlc/prqlc/src/codegen/ast.rs  display_interpolation: the arm `pr::InterpolateItem::String(s) => { r += s.replace(..).replace(..).replace(..).replace(..).as_str() }` (slice)
The theory below (what a chain of single-character `str::replace` calls computes, and what the lexer and the interpolation parser undo) is proved by Verus for all strings.
"""
import re

import common_rq
from extract import ExtractionError

AST = "prqlc/prqlc/src/codegen/ast.rs"

LABELS = ["WI1", "WI2", "WI3"]
FUNCTIONS = ["write_string_part"]
RLIMIT = 120

ASSUMED = [
    {"what": "opaque external types", "keys": ["pub struct Opaque"]},
    {"what": "`s.replace(c, t)` with a single-character pattern is str_replace(): every c becomes t, everything else stays (repl()); `r += x` appends the characters of x",
     "keys": ["fn str_replace", "fn string_append"]},
]
TRUSTED = [
    "oracle (C14): reading an interpolated string back: the LEXER turns `\\\\` into `\\` and `\\\"` into `\"` (unit lex_strings: escape decoding) and a bare `\"` ends the literal; then the "
    "INTERPOLATION PARSER turns `{{` into `{` and `}}` into `}` while a single brace opens / closes an expression. The text written for a string part must contain no bare "
    "quote and no single brace (WI2), and undoing the two layers must give back the part (WI1: unbrace(unescape(text)) == part)",
    "the slice drops the rest of display_interpolation (prefix, quotes, expression parts)",
]

import os
_THEORY = open(os.path.join(os.path.dirname(os.path.abspath(__file__)), "fmt_interp_theory.rs.txt"), encoding="utf-8").read()

PRELUDE = r"""
#![allow(unused_imports, dead_code, unused_variables, unused_mut, unused_parens, non_snake_case)]
use vstd::prelude::*;
verus! {
""" + common_rq.OPAQUE + r"""
@THEORY@
#[verifier::external_body] pub fn str_replace(s: &str, c: char, t: &str) -> (r: String) requires t@.len() > 0, ensures r@ == repl(s@, c, t@), { unimplemented!() }
#[verifier::external_body] pub fn string_append(r: &mut String, x: &str) ensures final(r)@ == old(r)@ + x@, { unimplemented!() }
"""
PRELUDE = PRELUDE.replace("@THEORY@", _THEORY)


def build(X):
    a = X.arm_body(AST, "display_interpolation", "pr::InterpolateItem::String(s) =>", name="write_string_part")
    # method chain -> nested calls, innermost first
    txt = a.text
    m = re.search(r"\bs((?:\s*\.replace\('(?:\\.|[^'\\])', \"(?:\\.|[^\"\\])*\"\))+)", txt)
    if not m:
        raise ExtractionError("display_interpolation: the chain `s.replace(..).replace(..)` of the String arm is not where the unit expects it")
    calls = re.findall(r"\.replace\(('(?:\\.|[^'\\])'), (\"(?:\\.|[^\"\\])*\")\)", m.group(1))
    nested = "s.as_str()"
    for c, t in calls:
        nested = "str_replace(%s, %s, %s)" % (nested if nested == "s.as_str()" else nested + ".as_str()", c, t)
    a.rewrite("R5", m.group(0), "(" + nested + ")", why="method chain of str::replace with single-character patterns written as nested calls of the shim (%d calls, same order)" % len(calls))
    a.rewrite_re("R5", r"\br \+= \((str_replace\(.*\))\)\s*\.as_str\(\)", r"string_append(r, \1.as_str())", count=1, why="String += &str")
    a.text = ("pub fn write_string_part(r: &mut String, s: &String)\n"
              "    ensures\n"
              "        // C14: what is appended reads back as the part: the lexer's unescaping followed by the interpolation parser's brace handling give s\n"
              "        exists|w: Seq<char>| final(r)@ == old(r)@ + w && unbrace(unescape(w)) == s@, // @WI1\n"
              "        // .. and it neither ends the string literal nor opens an expression\n"
              "        exists|w: Seq<char>| final(r)@ == old(r)@ + w && closed(w), // @WI2\n"
              "        // precisely: the four replacements, backslash first\n"
              "        final(r)@ == old(r)@ + enc(s@), // @WI3\n"
              "{\n    proof { theorem_roundtrip(s@); lemma_closed(s@); reveal_strlit(\"\\\\\\\\\"); reveal_strlit(\"\\\\\\\"\"); reveal_strlit(\"{{\"); reveal_strlit(\"}}\");\n"
              "        assert(\"\\\\\\\\\"@ =~= seq!['\\\\', '\\\\']); assert(\"\\\\\\\"\"@ =~= seq!['\\\\', '\"']); assert(\"{{\"@ =~= seq!['{', '{']); assert(\"}}\"@ =~= seq!['}', '}']); }\n    "
              + a.text + "\n}\n")
    return PRELUDE + a.text + "\n} // verus!\nfn main() {}\n"


# ----------------------------------------------------------------------------- replay: format -> compile -> format
ROUNDTRIP = [
    'from t\nderive {x = s"REPLACE({path}, \'\\\\\', \'/\')", y = f"C:\\\\data\\\\{name}"}\n',
    'from t\nderive {q = f"say \\"hi\\" {{literally}} {name}"}\n',
    'from t\nderive {q = f"a\\\\\\"b{{c}}\\\\ {name}"}\n',
]


def _roundtrip(src):
    import replaylib
    ok0, sql0 = replaylib.compile_prql(src, "sql.sqlite")
    okf, f1 = replaylib.compile_prql(src, fmt=True)
    if not ok0 or not okf:
        out = sql0 if not ok0 else f1
        return {"input": src, "expected": "compiles and formats", "observed": out[:300], "failing": "PANIC" in out, "replay_kind": "roundtrip"}
    ok2, sql2 = replaylib.compile_prql(f1, "sql.sqlite")
    okg, f2 = replaylib.compile_prql(f1, fmt=True)
    bad = not (ok2 and sql2 == sql0 and okg and f2 == f1)
    return {"input": src, "expected": "the formatted program compiles to the same SQL and formatting is idempotent", "observed": "formatted:\n%s\n-> %s" % (f1[:300], ("same SQL" if ok2 and sql2 == sql0 else (sql2 or "")[:300])),
            "failing": bad, "replay_kind": "roundtrip"}


def replay(failure):
    for src in ROUNDTRIP:
        r = _roundtrip(src)
        if r["failing"]:
            return r
    return {"failing": False}


def rerun(doc):
    return _roundtrip(doc["input"])
