"""Unit std_arity: the number of arguments the resolver unpacks for an internal function is the number of parameters std.prql declares for it.

Table anchors (read on every run):
  prqlc/prqlc/src/semantic/std.prql                      every `let f = .. -> internal NAME` with its positional and named parameters
  prqlc/prqlc/src/semantic/resolver/transforms.rs        resolve_special_func: every arm `"NAME" => { let [..] = unpack::<N>(func.args); ..`
  prqlc/prqlc/src/semantic/resolver/static_eval.rs       the operator names static_eval_rq_operator indexes args[0] / args[1] for
"""
import re

import common_rq
from extract import ExtractionError

STD_PRQL = "prqlc/prqlc/src/semantic/std.prql"
TRANSFORMS = "prqlc/prqlc/src/semantic/resolver/transforms.rs"
STATIC_EVAL = "prqlc/prqlc/src/semantic/resolver/static_eval.rs"

# the declarations whose internal function has another name on purpose (read in the pinned tree: `std.version` is the old name of `prql_version`)
SI_ALIASES = {("version", "prql_version")}

LABELS = []
FUNCTIONS = []
RLIMIT = 30

ASSUMED = [
    {"what": "the text of std.prql is parsed by this unit (let NAME = [func] params -> .. internal X; type annotations <..> removed; one parameter per line in the "
             "multi-line form); the real parser is not under contract", "keys": []},
]
TRUSTED = [
    "oracle (C12): unpack::<N>(func.args) panics (`bad special function cast`) unless the call has exactly N arguments; a saturated call of a std function has as many "
    "arguments as the declaration has parameters (positional + named; fold_function's arity gate, unit resolve_guards FA1-3) - so N must be that number; "
    "static_eval_rq_operator indexes args[0] (std.not, std.neg) and args[1] (std.eq, std.ne, std.and, std.or, std.coalesce) - so those declarations must have 1 resp. 2 parameters",
    "PL supplied as JSON can carry RqOperator / internal calls of any arity: not covered",
]

PRELUDE = r"""
#![allow(unused_imports, dead_code, unused_variables, unused_mut, unused_parens, non_snake_case)]
use vstd::prelude::*;
verus! {
pub open spec fn arity_matches(declared_params: nat, unpacked: nat) -> bool { declared_params == unpacked }
pub open spec fn internal_name_is_own(b: bool) -> bool { b }
"""


def parse_std(text):
    lines = text.split("\n")
    funcs = {}
    i = 0
    mod = []
    while i < len(lines):
        s = lines[i].strip()
        m = re.match(r"module\s+(\w+)\s*\{", s)
        if m:
            mod.append(m.group(1)); i += 1; continue
        if s == "}" and mod:
            mod.pop(); i += 1; continue
        m = re.match(r"let\s+(`?[\w.]+`?)\s*=\s*(.*)$", s)
        if m:
            name, rest = m.group(1).strip("`"), m.group(2)
            if rest.strip() == "func":
                params = []
                i += 1
                while i < len(lines) and not lines[i].strip().startswith("->"):
                    p = re.sub(r"<[^<>]*>", "", lines[i]).strip()
                    if p:
                        params.append(p)
                    i += 1
                body = lines[i].strip() if i < len(lines) else ""
            elif "->" in rest:
                ps, body = rest.split("->", 1)
                ps = re.sub(r"^func\s+", "", ps.strip())
                params = [p for p in re.sub(r"<[^<>]*>", " ", ps).split() if p]
            else:
                i += 1; continue
            mi = re.search(r"\binternal\s+([\w.]+)", body)
            if mi:
                funcs.setdefault(mi.group(1), []).append((".".join(mod + [name]), len(params), i + 1))
        i += 1
    return funcs


def rows(X):
    funcs = parse_std(X.read(STD_PRQL))
    tr = X.fn(TRANSFORMS, "resolve_special_func")
    out = []
    arms = re.findall(r'"([\w.]+)"\s*=>\s*\{\s*(?://[^\n]*\n\s*)*let \[[^\]]*\] = unpack::<(\d+)>\(func\.args\);', tr.text)
    if len(arms) < 10:
        raise ExtractionError("resolve_special_func: arms `\"name\" => { let [..] = unpack::<N>(func.args)` not recognised (%d found)" % len(arms))
    for name, n in arms:
        decls = funcs.get(name)
        if not decls:
            out.append(("UA.%s" % name, "false", "no `internal %s` declaration in std.prql for the arm unpack::<%s>" % (name, n)))
            continue
        for (fq, np, line) in decls:
            out.append(("UA.%s.%s" % (name, fq), "arity_matches(%d, %s)" % (np, n), "std.prql:%d `%s` has %d parameters; transforms.rs unpacks %s" % (line, fq, np, n)))
    se = X.fn(STATIC_EVAL, "static_eval_rq_operator")
    names = re.findall(r'"(std\.\w+)"\s*=>', se.text)
    for name in names:
        need = 2 if re.search(r'"%s"\s*=>\s*\{?[^"]*?args\[1\]|"%s"\s*=>\s*\{?[^"]*?args\.remove\(1\)' % (re.escape(name), re.escape(name)), se.text, re.S) else 1
        for (fq, np, line) in funcs.get(name, []):
            out.append(("UA.fold.%s.%s" % (name, fq), "arity_matches(%d, %d)" % (np, need), "std.prql:%d `%s` has %d parameters; static_eval indexes %s" % (
                line, fq, np, "args[0], args[1]" if need == 2 else "args[0]")))
        if not funcs.get(name):
            out.append(("UA.fold.%s" % name, "false", "static_eval folds %s but std.prql has no `internal %s`" % (name, name)))
    # SI rows: a declaration `let f = .. -> internal X` hands the call to the compiler-internal function of ITS OWN name: X is the qualified name std.<modules>.f, or the bare
    # name f (the special functions of resolve_special_func), or the one documented alias.  A declaration that names another function's internal silently computes that function.
    for internal, decls in sorted(funcs.items()):
        for (fq, np, line) in decls:
            own = "std." + fq
            bare = fq.split(".")[-1]
            ok = internal in (own, bare) or (fq, internal) in SI_ALIASES
            out.append(("SI.%s" % fq, "internal_name_is_own(%s)" % ("true" if ok else "false"), "std.prql:%d `%s` is `internal %s`" % (line, fq, internal)))
    return out


def DYNAMIC_LABELS():
    import extract
    return [r[0] for r in rows(extract.Extractor())]


def build(X):
    body = []
    for (lab, claim, src) in rows(X):
        fn = "row_" + re.sub(r"[^A-Za-z0-9]", "_", lab)
        body.append("// %s\nproof fn %s() ensures %s, // @%s\n{}\n" % (src, fn, claim, lab))
    return PRELUDE + "\n".join(body) + "\n} // verus!\nfn main() {}\n"
