"""Unit sstring_query: an s-string used as a relation is cut into `SELECT ` and the rest without ever slicing the text inside a character.

Real code under contract:
  prqlc/prqlc/src/sql/gen_query.rs  translate_query_sstring (whole function)
"""
import re

import common_rq
from extract import ExtractionError, code_tokens, match_brace

GEN_QUERY = "prqlc/prqlc/src/sql/gen_query.rs"

LABELS = ["SQ1", "SQ2"]
FUNCTIONS = ["translate_query_sstring"]
RLIMIT = 60

ASSUMED = [
    {"what": "opaque external types", "keys": ["pub struct Opaque"]},
    {"what": "text model of std::str (byte offsets into UTF-8 text): byte_len, is_boundary(text, byte offset), bytes_sub(text, a, b) are uninterpreted; the std "
             "methods carry the contracts of their documentation: trim() is total; get(a..b) is Some exactly when a <= b <= len and both ends are character "
             "boundaries; split_at(n) and `&s[a..b]` PANIC unless the offsets are character boundaries within the text (precondition); strip_prefix(p) = Some(rest) "
             "implies text == p + rest; Option<&str>::unwrap_or_default() is the empty text for None; offsets 0 and len are boundaries",
     "keys": ["spec fn byte_len", "spec fn is_boundary", "spec fn bytes_sub", "spec fn trimmed", "fn axiom_boundaries", "fn string_trim", "fn str_trim", "fn str_get_range", "fn opt_str_or_default",
              "fn str_strip_prefix", "fn str_split_at", "fn str_index", "fn str_byte_len"]},
    {"what": "regex: the constant pattern `(?i)^SELECT\\b` compiles (Regex::new(..).unwrap() cannot fail); is_match(x) is the uninterpreted select_kw(x) and implies "
             "that x has at least 6 bytes; a OnceLock<Regex> initialised with that pattern is that regex",
     "keys": ["struct Regex", "fn regex_const", "spec fn select_kw", "fn is_match"]},
    {"what": "translate_sstring is external (its result is the uninterpreted sstring_text(items)); the sqlparser query `SELECT <ident text>` built with default_query / "
             "default_select is select_ident_query(text) with query_text(); Error::new_simple(..).push_hint(..) is simple_error()",
     "keys": ["fn translate_sstring", "spec fn sstring_text", "fn select_ident_query", "spec fn query_text", "fn simple_error"]},
]
TRUSTED = [
    "oracle (C12): for EVERY text of the s-string (any characters, any length) the function returns a query or an error; it never panics. std::str slicing by byte "
    "offsets panics inside a multi-byte character, so each such call site carries the boundary precondition",
    "oracle (SQ1): Ok(query) means: the first 7 bytes of the trimmed text matched the SELECT regex and the query text is exactly the rest",
]

PRELUDE = r"""
#![allow(unused_imports, dead_code, unused_variables, unused_mut, unused_parens, non_snake_case)]
use vstd::prelude::*;
use std::result::Result::*;
verus! {
""" + common_rq.OPAQUE + r"""
pub type Context = OpaqueT;
pub type Items = OpaqueT;
pub mod sql_ast { pub type Query = super::OpaqueT; }
// ---------------------------------------------------------------- text model (UTF-8 byte offsets)
pub uninterp spec fn byte_len(s: Seq<char>) -> nat;
pub uninterp spec fn is_boundary(s: Seq<char>, b: nat) -> bool;
pub uninterp spec fn bytes_sub(s: Seq<char>, a: nat, b: nat) -> Seq<char>;
pub uninterp spec fn trimmed(s: Seq<char>) -> Seq<char>;
#[verifier::external_body]
pub broadcast proof fn axiom_boundaries(s: Seq<char>)
    ensures #[trigger] is_boundary(s, 0), is_boundary(s, byte_len(s)),
{}
#[verifier::external_body] pub fn string_trim(s: &String) -> (r: &str) ensures r@ == trimmed(s@), { unimplemented!() }
#[verifier::external_body] pub fn str_trim(s: &str) -> (r: &str) ensures r@ == trimmed(s@), { unimplemented!() }
#[verifier::external_body] pub fn str_byte_len(s: &str) -> (r: usize) ensures r == byte_len(s@), { unimplemented!() }
#[verifier::external_body]
pub fn str_get_range<'a>(s: &'a str, a: usize, b: usize) -> (r: Option<&'a str>)
    ensures
        r is Some <==> (a <= b <= byte_len(s@) && is_boundary(s@, a as nat) && is_boundary(s@, b as nat)),
        r is Some ==> r->0@ == bytes_sub(s@, a as nat, b as nat) && byte_len(r->0@) == b - a,
{ unimplemented!() }
#[verifier::external_body]
pub fn opt_str_or_default<'a>(o: Option<&'a str>) -> (r: &'a str)
    ensures o is Some ==> r == o->0, o is None ==> byte_len(r@) == 0,
{ unimplemented!() }
#[verifier::external_body]
pub fn str_strip_prefix<'a>(s: &'a str, p: &str) -> (r: Option<&'a str>)
    ensures r is Some ==> s@ == p@ + r->0@,
{ unimplemented!() }
// PANICS unless mid is on a character boundary
#[verifier::external_body]
pub fn str_split_at<'a>(s: &'a str, mid: usize) -> (r: (&'a str, &'a str))
    requires mid <= byte_len(s@), is_boundary(s@, mid as nat),
    ensures s@ == r.0@ + r.1@, r.0@ == bytes_sub(s@, 0, mid as nat), byte_len(r.0@) == mid,
{ unimplemented!() }
// `&s[a..b]`: PANICS unless both offsets are on character boundaries
#[verifier::external_body]
pub fn str_index<'a>(s: &'a str, a: usize, b: usize) -> (r: &'a str)
    requires a <= b <= byte_len(s@), is_boundary(s@, a as nat), is_boundary(s@, b as nat),
    ensures r@ == bytes_sub(s@, a as nat, b as nat), byte_len(r@) == b - a,
{ unimplemented!() }
// ---------------------------------------------------------------- regex shim
#[verifier::external_body] pub struct Regex { _p: u8 }
pub uninterp spec fn select_kw(s: Seq<char>) -> bool;
#[verifier::external_body] pub fn regex_const() -> Regex { unimplemented!() }
impl Regex {
    #[verifier::external_body]
    pub fn is_match(&self, x: &str) -> (r: bool) ensures r == select_kw(x@), r ==> byte_len(x@) >= 6, { unimplemented!() }
}
// ---------------------------------------------------------------- surroundings
pub uninterp spec fn sstring_text(items: Items) -> Seq<char>;
#[verifier::external_body]
pub fn translate_sstring(items: Items, ctx: &mut Context) -> (r: Result<String, Error>) ensures r is Ok ==> r->Ok_0@ == sstring_text(items), { unimplemented!() }
pub uninterp spec fn query_text(q: sql_ast::Query) -> Seq<char>;
#[verifier::external_body]
pub fn select_ident_query(text: &str) -> (r: sql_ast::Query) ensures query_text(r) == text@, { unimplemented!() }
#[verifier::external_body] pub fn simple_error() -> Error { unimplemented!() }
"""


def build(X):
    f = X.fn(GEN_QUERY, "translate_query_sstring").pub_all()
    # ---- the constant regex; lazily initialised (R5): `static N: OnceLock<Regex> = OnceLock::new();` + `N.get_or_init(|| e)` is `&e`
    f.rewrite_re("R5", r"Regex::new\(r\"\(\?i\)\^SELECT\\b\"\)\.unwrap\(\)", "regex_const()", count=None, why="the constant regex compiles")
    for m in list(re.finditer(r"static (\w+): (?:std::sync::)?OnceLock<Regex> = (?:std::sync::)?OnceLock::new\(\);\n?", f.text)):
        name = m.group(1)
        f.rewrite("R5", m.group(0), "", why="lazily initialised static: declaration dropped")
        f.rewrite_re("R5", r"\b" + name + r"\.get_or_init\(\|\| regex_const\(\)\)", "(&regex_const())", count=None, why="OnceLock::get_or_init(|| e) is &e for a constant e")
    # ---- constants of the form `const N: usize = "lit".len();` (R9: local constant inlined as a let)
    for m in list(re.finditer(r"const (\w+): usize = \"([^\"\\]*)\"\.len\(\);", f.text)):
        f.rewrite("R9", m.group(0), "let %s: usize = %d;" % (m.group(1), len(m.group(2).encode())), why="length of a string literal evaluated")
    # ---- the query that is returned: `default_query(SetExpr::Select(Box::new(Select { projection: vec![UnnamedExpr(Identifier(Ident::new(X)))], ..default_select() })))`
    m = re.search(r"default_query\(sql_ast::SetExpr::Select\(Box::new\(\s*sql_ast::Select \{\s*projection: vec!\[sql_ast::SelectItem::UnnamedExpr\(sql_ast::Expr::Identifier\(\s*"
                  r"sql_ast::Ident::new\((\w+)\),?\s*\)\)\],\s*\.\.default_select\(\)\s*\},?\s*\)\)\)", f.text)
    if not m:
        raise ExtractionError("translate_query_sstring: the returned `SELECT <identifier>` query is not built the way the unit expects")
    f.rewrite("R5", m.group(0), "select_ident_query(%s)" % m.group(1), why="sqlparser AST of `SELECT <text>`")
    m = re.search(r"Error::new_simple\((?:[^()]|\([^()]*\))*\)\s*\.push_hint\((?:[^()]|\([^()]*\))*\)", f.text)
    if m:
        f.rewrite("R5", m.group(0), "simple_error()", why="error construction")
    # ---- std::str methods -> shims with their documented contracts
    f.rewrite_re("R5", r"\bstring\.trim\(\)", "string_trim(&string)", count=None, why="String::trim")
    f.rewrite_re("R5", r"\b(\w+)\.trim\(\)", r"str_trim(\1)", count=None, why="str::trim")
    f.rewrite_re("R5", r"(string_trim\(&string\)|str_trim\(\w+\)|\b\w+)\s*\.get\((\w+)\.\.(\w+)\)", r"str_get_range(\1, \2, \3)", count=None, why="str::get(range)")
    f.rewrite_re("R5", r"(str_get_range\([^()]*(?:\([^()]*\))?[^()]*\))\s*\.unwrap_or_default\(\)", r"opt_str_or_default(\1)", count=None, why="Option<&str>::unwrap_or_default")
    f.rewrite_re("R5", r"(string_trim\(&string\)|str_trim\(\w+\)|\b\w+)\s*\.strip_prefix\((\w+)\)", r"str_strip_prefix(\1, \2)", count=None, why="str::strip_prefix")
    f.rewrite_re("R5", r"(string_trim\(&string\)|str_trim\(\w+\)|\b\w+)\s*\.split_at\((\w+)\)", r"str_split_at(\1, \2)", count=None, why="str::split_at (panics off a char boundary)")
    f.rewrite_re("R5", r"&(\w+)\[(\w+)\.\.(\w+)\]", r"str_index(\1, \2, \3)", count=None, why="str index by byte range (panics off a char boundary)")
    f.rewrite_re("R5", r"&(\w+)\[\.\.(\w+)\]", r"str_index(\1, 0, \2)", count=None, why="str index by byte range (panics off a char boundary)")
    f.rewrite_re("R5", r"&(\w+)\[(\w+)\.\.\]", r"str_index(\1, \2, str_byte_len(\1))", count=None, why="str index by byte range (panics off a char boundary)")
    f.rewrite_re("R5", r"\b(\w+)\.len\(\)", r"str_byte_len(\1)", count=None, why="str::len")
    f.rewrite_re("R6", r"items: Vec<InterpolateItem<Expr>>", "items: Items", count=1, why="opaque parameter type")
    f.rewrite_re("R6", r"-> Result<sql_ast::Query>", "-> Result<sql_ast::Query, Error>", count=1, why="Result alias spelled out")
    f.insert_at_body_start("broadcast use axiom_boundaries;", "text model axioms")
    f.ret_name("r")
    f.contract("""
        ensures
            // SQ1: a query is returned only for a text whose first 7 bytes (after trimming) match the SELECT regex; the query is the rest of the text
            r is Ok ==> (7 <= byte_len(trimmed(sstring_text(items)))
                && select_kw(bytes_sub(trimmed(sstring_text(items)), 0, 7))
                && trimmed(sstring_text(items)) == bytes_sub(trimmed(sstring_text(items)), 0, 7) + query_text(r->Ok_0)), // @SQ1
            true, // @SQ2
    """)
    return PRELUDE + f.text + "\n} // verus!\nfn main() {}\n"


# ----------------------------------------------------------------------------- replay on the real compiler
INPUTS = ['from s"日本語テーブル"\n', 'from s"SELECT\u00a0* FROM employees"\n', 'from s"SELEC\u00e9 * FROM t"\n', 'from s"SELECT * FROM t"\n', 'from s"\u00e9"\n',
          'from a\njoin s"日本語テーブル" (==id)\n', 'from s"  select * from t  "\n', 'from s"SELECT"\n', 'from s"SELECTé"\n']


def _try(src):
    import replaylib
    ok, out = replaylib.compile_prql(src)
    return {"input": src, "expected": "SQL or a list of errors (no panic)", "observed": out[:300], "failing": (not ok) and out.startswith("PANIC"), "replay_kind": "compile"}


def replay(failure):
    for src in INPUTS:
        r = _try(src)
        if r["failing"]:
            return r
    return {"failing": False}


def rerun(doc):
    return _try(doc["input"])


SWEEP_DOC = "s-strings in relation position with multi-byte characters around byte offset 7 of the text: compiled by the real prqlc; SQL or errors are expected, never a panic"


def sweep():
    out = []
    for src in INPUTS:
        r = _try(src)
        r["obligation"] = "sstring_query.translate_query_sstring.precondition"
        out.append(r)
    return out
