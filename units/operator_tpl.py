"""Unit operator_tpl: how translate_operator interprets a std.sql.prql definition (hole strengths, COALESCE wrapping, result strength),
and the empty-input values the property promises (table obligations on std.sql.prql).

Real code under contract:
  prqlc/prqlc/src/sql/operators.rs  translate_operator:
      slice `let required_strength = ..; let arg = translate_operand(..)?;`            (one `{x:N}` hole)
      slice `let mut binding_strength = parent_binding_strength; if !ctx.query.window_function { .. }`  (COALESCE, result strength)
  prqlc/prqlc/src/sql/std.sql.prql  (table anchor: effective definition of sum / any / all / count per dialect module)
"""
import re

import common_rq
import sqlstd
from extract import ExtractionError

OPERATORS = "prqlc/prqlc/src/sql/operators.rs"
STD_SQL = "prqlc/prqlc/src/sql/std.sql.prql"

LABELS = ["TP1", "TP1d", "TP2", "TP2s", "TP3", "TP4", "TP4v"]
FUNCTIONS = ["hole_operand_slice", "result_strength_slice", "operator_lookup_slice"]
RLIMIT = 60

ASSUMED = [
    {"what": "opaque external types", "keys": ["pub struct Opaque"]},
    {"what": "translate_operand is external here (its own contract: sql_prec TO1): operand_src(arg, parent_strength, assoc) is the text it yields; "
             "str::parse::<i32>().ok() is the uninterpreted as_i32(); format!(\"COALESCE({text}, {default})\") is coalesce_text(); into_source() is the identity on the text",
     "keys": ["fn translate_operand", "spec fn operand_src", "spec fn as_i32", "fn parse_i32_opt", "spec fn coalesce_text", "fn fmt_coalesce", "struct ExprOrSource", "fn into_source",
              "fn option_and_then_parse"]},
    {"what": "find_operator_impl (lookup of the definition and its annotations in the parsed std.sql.prql) is not under contract: the uninterpreted operator_impl(name, dialect); the table "
             "rows below read the annotations from the file with tools/sqlstd.py instead; error text is opaque", "keys": ["fn find_operator_impl", "spec fn operator_impl", "fn opaque_error"]},
]
TRUSTED = [
    "oracle (C01): SUM over no rows is 0, ANY over no rows is FALSE, ALL over no rows is TRUE - so their SQL aggregates (NULL on empty input) are wrapped in "
    "COALESCE with exactly that default; COUNT counts rows (COUNT(*)), not non-null entries; a windowed aggregate is not wrapped",
    "oracle (C02): a `{x:N}` hole asks for strength N, a `{x}` hole for the definition's binding_strength (100 when it has none); the text built for the operator "
    "has that binding_strength, or 100 (atomic) once wrapped in COALESCE(..)",
]

PRELUDE = r"""
#![allow(unused_imports, dead_code, unused_variables, unused_mut, unused_parens, non_snake_case)]
use vstd::prelude::*;
use std::result::Result::*;
verus! {
""" + common_rq.OPAQUE + r"""
pub mod gen_expr { pub enum Associativity { Left, Right, Both, None } }
pub type RqExpr = OpaqueT;
pub struct ExprOrSource { pub text: String }
impl ExprOrSource { #[verifier::external_body] pub fn into_source(self) -> (r: String) ensures r == self.text, { unimplemented!() } }
pub uninterp spec fn operand_src(arg: RqExpr, is_left: bool, strength: i32, assoc: gen_expr::Associativity) -> Seq<char>;
pub struct QueryOpts { pub window_function: bool }
pub struct Context { pub query: QueryOpts }
#[verifier::external_body]
pub fn translate_operand(arg: RqExpr, is_left: bool, parent_strength: i32, assoc: gen_expr::Associativity, ctx: &mut Context) -> (r: Result<ExprOrSource, Error>)
    ensures r is Ok ==> r->Ok_0.text@ == operand_src(arg, is_left, parent_strength, assoc), final(ctx).query == old(ctx).query,
{ unimplemented!() }
pub uninterp spec fn as_i32(s: Seq<char>) -> Option<i32>;
#[verifier::external_body]
pub fn option_and_then_parse(f: Option<&String>) -> (r: Option<i32>) ensures r == (match f { Some(s) => as_i32(s@), None => None::<i32> }), { unimplemented!() }
pub uninterp spec fn coalesce_text(text: Seq<char>, default: Seq<char>) -> Seq<char>;
#[verifier::external_body]
pub fn fmt_coalesce(text: &String, default: &String) -> (r: String) ensures r@ == coalesce_text(text@, default@), { unimplemented!() }

// the strength a hole `{x:N}` / `{x}` asks for
pub open spec fn hole_strength(format: Option<String>, parent: i32) -> i32 {
    match format { Some(f) => (match as_i32(f@) { Some(n) => n, None => parent }), None => parent }
}
"""


def effective(funcs, dialect, name):
    """Definition of std.<name> that find_operator_impl picks for a dialect: the dialect module's own, else the std one."""
    own = [f for f in funcs if f.dialect == dialect and f.path == name]
    if own:
        return own[0]
    base = [f for f in funcs if f.dialect == "" and f.path == name]
    return base[0] if base else None


ORACLE_DEFAULT = {"sum": "0", "any": "FALSE", "all": "TRUE"}


def table_rows(X):
    funcs = sqlstd.parse(X.read(STD_SQL))
    dialects = sorted({f.dialect for f in funcs if f.dialect}) + [""]
    rows = []
    for d in dialects:
        for name, want in ORACLE_DEFAULT.items():
            f = effective(funcs, d, name)
            if f is None or f.body is None:
                continue
            got = f.ann.get("coalesce")
            rows.append(("CO.%s.%s" % (d or "std", name),
                         "empty_default_ok(%s, %s)" % (lit(want), "None::<Seq<char>>" if got is None else "Some(%s)" % lit(got)),
                         "std.sql.prql:%d %s.%s coalesce=%r" % (f.line, d or "std", name, got)))
        f = effective(funcs, d, "count")
        if f is not None and f.body is not None:
            rows.append(("CO.%s.count" % (d or "std"), "count_counts_rows(%s, %s)" % (lit(f.body), "true" if "coalesce" in f.ann else "false"),
                         "std.sql.prql:%d %s.count body=%r" % (f.line, d or "std", f.body)))
    # WFA rows (C04): the SQL functions whose value depends on the window FRAME - the aggregates and FIRST_VALUE / LAST_VALUE (SQL:2003 6.10: aggregate and value window functions
    # take the frame; ranking functions and LAG / LEAD do not) - must carry `window_frame=true`, or translate_windowed emits no frame clause for them and the database's default
    # frame (RANGE UNBOUNDED PRECEDING .. CURRENT ROW as soon as there is an ORDER BY) replaces the one the pipeline asks for
    for d in dialects:
        for name in FRAME_SENSITIVE:
            f = effective(funcs, d, name)
            if f is None or f.body is None:
                continue
            rows.append(("WFA.%s.%s" % (name, d or "std"), "takes_frame(%s)" % ("true" if f.ann.get("window_frame") == "true" else "false"),
                         "std.sql.prql:%d %s.%s window_frame=%r" % (f.line, d or "std", name, f.ann.get("window_frame"))))
    if len(rows) < 8:
        raise ExtractionError("std.sql.prql: definitions of sum / any / all / count not found (table anchor lost)")
    return rows


FRAME_SENSITIVE = ["min", "max", "sum", "average", "stddev", "all", "any", "concat_array", "count", "count_distinct", "first", "last"]


def lit(s):
    return '"%s"@' % s.replace("\\", "\\\\").replace('"', '\\"')


def DYNAMIC_LABELS():
    import extract
    X = extract.Extractor()
    return [r[0] for r in table_rows(X)]


def build(X):
    # ---- one hole
    h = X.slice(OPERATORS, "translate_operator", "let required_strength = format", "let arg = translate_operand(", name="hole_operand_slice", end_stmt=True)
    h.rewrite_re("R5", r"format\s*\.as_ref\(\)\s*\.and_then\(\|f\| f\.parse::<i32>\(\)\.ok\(\)\)", "option_and_then_parse(format.as_ref())", count=None,
                 why="Option::and_then with str::parse::<i32>().ok()")
    h.rewrite_re("R6", r"super::gen_expr::Associativity", "gen_expr::Associativity", count=None)
    h.text = ("pub fn hole_operand_slice(arg: RqExpr, format: &Option<String>, parent_binding_strength: i32, ctx: &mut Context) -> (r: Result<String, Error>)\n"
              "    ensures\n"
              "        // C02: the operand of a hole is translated as an operand of strength N for `{x:N}` ..\n"
              "        (r is Ok && format is Some && as_i32(format->0@) is Some) ==> r->Ok_0@ == operand_src(arg, false, as_i32(format->0@)->0, gen_expr::Associativity::Both), // @TP1\n"
              "        // .. and of the definition's own strength for `{x}`\n"
              "        (r is Ok && !(format is Some && as_i32(format->0@) is Some)) ==> r->Ok_0@ == operand_src(arg, false, parent_binding_strength, gen_expr::Associativity::Both), // @TP1d\n"
              "{\n    " + h.text + "\n    Ok(arg.into_source())\n}\n")
    h.rewrites.append({"rule": "slice", "what": "the two statements computing required_strength and translating the hole's argument, wrapped as fn hole_operand_slice; "
                       "the following `text += &arg.into_source()` becomes the returned value"})

    # ---- result strength / COALESCE
    t = X.slice(OPERATORS, "translate_operator", "let mut binding_strength = parent_binding_strength;", "Ok(SourceExpr {", name="result_strength_slice", include_end=False)
    t.rewrite_re("R5", r'format!\("COALESCE\(\{text\}, \{default\}\)"\)', "fmt_coalesce(&text, &default)", count=None, why="format!")
    t.text = ("pub fn result_strength_slice(text0: String, parent_binding_strength: i32, coalesce: Option<String>, ctx: &Context) -> (r: (String, i32))\n"
              "    ensures\n"
              "        // C01: an aggregate with an empty-input default is wrapped in COALESCE(.., default) - unless it is used as a window function ..\n"
              "        (coalesce is Some && !ctx.query.window_function) ==> r.0@ == coalesce_text(text0@, coalesce->0@), // @TP2\n"
              "        // .. and COALESCE(..) is atomic for the parent\n"
              "        (coalesce is Some && !ctx.query.window_function) ==> r.1 == 100, // @TP2s\n"
              "        // otherwise the text is what the template produced, with the definition's binding strength\n"
              "        !(coalesce is Some && !ctx.query.window_function) ==> (r.0 == text0 && r.1 == parent_binding_strength), // @TP3\n"
              "{\n    let mut text = text0;\n    " + t.text + "\n    (text, binding_strength)\n}\n")
    t.rewrites.append({"rule": "slice", "what": "statements from `let mut binding_strength` up to the final `Ok(SourceExpr {..})`, wrapped as fn result_strength_slice"})

    # ---- the lookup of the operator's definition: an operator that has no definition for the dialect is an error, not a panic
    lk = X.slice(OPERATORS, "translate_operator", "let (func_def, binding_strength, window_frame, coalesce) =", "let parent_binding_strength", name="operator_lookup_slice", include_end=False)
    lk.rewrite_re("R5", r"Error::new_simple\(format!\((?:[^()]|\((?:[^()]|\([^()]*\))*\))*\)\)", "opaque_error()", count=None, why="error construction with a formatted text is opaque")
    lk.desugar_option_closures()
    lk.text = ("pub type FuncRef = OpaqueT;\n#[verifier::external_body] pub fn opaque_error() -> Error { unimplemented!() }\n"
               "#[derive(Clone, Copy)] pub struct DialectId(pub u8);\npub uninterp spec fn operator_impl(name: Seq<char>, dialect: DialectId) -> Option<(FuncRef, Option<i32>, bool, Option<String>)>;\n"
               "#[verifier::external_body]\npub fn find_operator_impl(name: &String, dialect: DialectId) -> (r: Option<(FuncRef, Option<i32>, bool, Option<String>)>)\n"
               "    ensures r == operator_impl(name@, dialect),\n{ unimplemented!() }\n"
               "pub struct LookupCtx { pub dialect_enum: DialectId }\n"
               "pub fn operator_lookup_slice(name: String, ctx: &LookupCtx) -> (r: Result<(FuncRef, Option<i32>, bool, Option<String>), Error>)\n"
               "    ensures\n"
               "        // C12 / C07: an operator without a definition for the dialect (std.sql.prql has none, in the dialect's module or generic) is a compile error\n"
               "        r is Ok <==> operator_impl(name@, ctx.dialect_enum) is Some, // @TP4\n"
               "        r is Ok ==> Some(r->Ok_0) == operator_impl(name@, ctx.dialect_enum), // @TP4v\n"
               "{\n    " + lk.text + "\n    Ok((func_def, binding_strength, window_frame, coalesce))\n}\n")
    lk.rewrites.append({"rule": "slice", "what": "the statement `let (func_def, binding_strength, window_frame, coalesce) = find_operator_impl(..)..;` of translate_operator wrapped as fn operator_lookup_slice; "
                        "find_operator_impl is external: the uninterpreted operator_impl(name, dialect)"})

    rows = table_rows(X)
    tbl = ["""
// ---------------------------------------------------------------- table obligations (std.sql.prql, read on every run)
pub open spec fn empty_default_ok(want: Seq<char>, got: Option<Seq<char>>) -> bool { got == Some(want) }
// `count` counts rows: COUNT(*) - not COUNT(column), which skips NULL entries - and is not given an empty-input default (COUNT over no rows is 0 already)
pub open spec fn count_counts_rows(body: Seq<char>, has_default: bool) -> bool { body == "COUNT(*)"@ && !has_default }
pub open spec fn takes_frame(annotated: bool) -> bool { annotated }
"""]
    for (lab, claim, src) in rows:
        fn = "row_" + re.sub(r"[^A-Za-z0-9]", "_", lab)
        tbl.append("// %s\nproof fn %s() ensures %s, // @%s\n{ reveal_strlit(\"COUNT(*)\"); reveal_strlit(\"0\"); reveal_strlit(\"TRUE\"); reveal_strlit(\"FALSE\"); }\n" % (src, fn, claim, lab))
    return PRELUDE + h.text + "\n" + t.text + "\n" + lk.text + "\n" + "\n".join(tbl) + "\n} // verus!\nfn main() {}\n"


# ----------------------------------------------------------------------------- replay / sweep on the real compiler + SQLite
SWEEP_DOC = ("the empty-input edge cases of the property statement, compiled by the real prqlc for sql.sqlite and executed by SQLite: aggregate without group over an "
             "empty table (one row: sum 0, count 0, any false, all true), group over an empty table (no row), count over NULL entries")

_CASES = [
    ("from t\naggregate {s = sum a, c = count a, x = any (a > 1), y = all (a > 1)}\n", "", [(0, 0, 0, 1)], "TP2"),
    ("from t\ngroup b (aggregate {s = sum a})\n", "", [], "TP2"),
    ("from t\naggregate {c = count a, s = sum a}\n", "insert into t values(1, 1); insert into t values(null, 1);", [(2, 1)], "CO.sqlite.count"),
    ("from t\nderive {s = sum a}\nselect {s}\n", "insert into t values(null, 1);", [(None,)], "TP3"),
]


def _try(prql, rows_sql, want, lab):
    import replaylib
    rec = {"obligation": "operator_tpl." + lab, "input": prql, "expected": repr(want), "replay_kind": "agg", "rows_sql": rows_sql, "want": [list(x) for x in want], "label": lab}
    ok, sql = replaylib.compile_prql(prql, "sql.sqlite")
    if not ok:
        rec.update(failing="PANIC" in sql, observed=sql[:400])
        return rec
    ok2, rows = replaylib.sqlite_rows("create table t(a integer, b integer);" + rows_sql, sql)
    rec.update(failing=(not ok2) or [tuple(r) for r in rows] != [tuple(w) for w in want], observed=repr(rows), sql=sql)
    return rec


# operators that some dialects have no template for: every (dialect, program) must give SQL or an error - never a panic
_NO_TEMPLATE = ['from t\nselect {d = (a | date.to_text "%Y")}\n', 'from t\nselect {d = (a | text.contains "x")}\n', 'from t\nfilter (a ~= "x")\n',
                'from t\nselect {d = math.pow a 2, e = a // 2}\n', 'from (read_csv "x.csv")\n']


def _try_no_template(target, prql):
    import replaylib
    ok, out = replaylib.compile_prql(prql, target)
    return {"obligation": "operator_tpl.TP4", "input": "target %s\n%s" % (target, prql), "expected": "SQL or a compile error", "observed": out[:300], "failing": out.startswith("PANIC"),
            "replay_kind": "no_template", "target": target, "prql": prql}


def sweep():
    import subprocess
    import replaylib
    out = [_try(*c) for c in _CASES]
    names = [l.strip() for l in subprocess.run([replaylib.prqlc_bin(), "list-targets"], capture_output=True, text=True).stdout.split("\n") if l.strip().startswith("sql.")]
    for t in names:
        for prql in _NO_TEMPLATE:
            out.append(_try_no_template(t, prql))
    return out


def replay(failure):
    for r in sweep():
        if r["failing"]:
            return r
    return {"failing": False}


def rerun(doc):
    if doc.get("replay_kind") == "no_template":
        return _try_no_template(doc["target"], doc["prql"])
    return _try(doc["input"], doc["rows_sql"], [tuple(x) for x in doc["want"]], doc["label"])
