"""Unit vec_utils: the two vector helpers the SQL back end uses to pick transforms out of a pipeline.

Real code under contract:
  prqlc/prqlc/src/utils/mod.rs  trait Pluck + impl Pluck<T> for Vec<T> (pluck: stable partition by a fallible conversion)
                                trait BreakUp + impl BreakUp<T> for Vec<T> (break_up: split at the first match)
  prqlc/prqlc/src/sql/gen_query.rs  translate_select_pipeline: slice `let (mut before_agg, mut after_agg) = pipeline.break_up(..); let where_ = ..; let having = ..;`
  prqlc/prqlc/src/sql/pq/ast.rs  enum SqlTransform (verbatim)
"""
import re

import common_rq
import common_std
from extract import ExtractionError

UTILS = "prqlc/prqlc/src/utils/mod.rs"
GEN_QUERY = "prqlc/prqlc/src/sql/gen_query.rs"
PQ_AST = "prqlc/prqlc/src/sql/pq/ast.rs"

LABELS = ["PL1", "PL2", "PLI", "BU1", "BU2", "BU3", "WH1", "WH2", "WH3", "WH4"]
FUNCTIONS = ["pluck", "break_up", "where_having_slice"]
RLIMIT = 120

ASSUMED = [
    {"what": "opaque external types", "keys": ["pub struct Opaque"]},
    {"what": "CId / TId derive Clone (re-attached)", "keys": []},
    {"what": "Vec::drain(..) over the full range hands out every element in order and leaves the vector empty (verif_drain_all + R11 iterator); Vec::extend appends; "
             "`self.iter().position(f)` returns the first index whose element satisfies f, None if there is none (in terms of f's own ensures); "
             "`self.drain(p..).collect_vec()` splits the vector at p",
     "keys": ["fn verif_drain_all", "fn vec_extend", "fn iter_position", "fn drain_from"]},
    common_std.VERIF_ITER_ASSUMPTION,
    {"what": "enum_as_inner SqlTransform::into_filter returns the condition of a Filter and gives every other transform back; filter_of_conditions is external here: "
             "conj_of(list) is the SQL condition it builds (its conjunction helper `all` is proved in unit desugar, FC1-3)",
     "keys": ["fn into_filter", "spec fn conj_of", "fn filter_of_conditions"]},
]
TRUSTED = [
    "oracle: pluck(f) removes from the vector exactly the elements f converts (Ok), returns the conversions in the original order, and keeps the others in their "
    "original order - nothing lost, duplicated or reordered; break_up(f) returns (prefix, suffix) with prefix ++ suffix the original vector, no element of the prefix "
    "satisfying f and the suffix starting with the first element that does",
    "oracle (C01): in one SELECT, the filters that precede the first aggregate (or union) of the pipeline form the WHERE clause, those that follow it the HAVING "
    "clause; every filter ends up in exactly one of the two and none stays in the pipeline",
]

PRELUDE = r"""
#![allow(unused_imports, dead_code, unused_variables, unused_mut, unused_parens, non_snake_case)]
use vstd::prelude::*;
use std::result::Result::*;
verus! {
""" + common_rq.OPAQUE + common_std.VERIF_ITER + r"""
#[verifier::external_body]
pub fn verif_drain_all<T>(v: &mut Vec<T>) -> (r: Vec<T>) ensures r@ == old(v)@, final(v)@.len() == 0, { unimplemented!() }
#[verifier::external_body]
pub fn vec_extend<T>(v: &mut Vec<T>, more: Vec<T>) ensures final(v)@ == old(v)@ + more@, { unimplemented!() }

// strictly increasing indices into a vector of length n
pub open spec fn increasing(s: Seq<int>, n: int) -> bool {
    (forall|i: int| 0 <= i < s.len() ==> 0 <= #[trigger] s[i] < n) && (forall|i: int, j: int| 0 <= i < j < s.len() ==> s[i] < s[j])
}
// (matched, rest) is the stable partition of `all` by f: mi / ri are the original positions of the matched / remaining elements
pub open spec fn plucked<T, R, F: Fn(T) -> Result<R, T>>(all: Seq<T>, f: F, matched: Seq<R>, rest: Seq<T>, mi: Seq<int>, ri: Seq<int>, upto: int) -> bool {
    &&& mi.len() == matched.len() && ri.len() == rest.len() && mi.len() + ri.len() == upto
    &&& increasing(mi, upto) && increasing(ri, upto)
    &&& forall|j: int| 0 <= j < mi.len() ==> f.ensures((all[#[trigger] mi[j]],), Ok::<R, T>(matched[j]))
    &&& forall|k: int| 0 <= k < ri.len() ==> f.ensures((all[#[trigger] ri[k]],), Err::<R, T>(rest[k]))
    &&& forall|j: int, k: int| 0 <= j < mi.len() && 0 <= k < ri.len() ==> #[trigger] mi[j] != #[trigger] ri[k]
}

// break_up
#[verifier::external_body]
pub fn iter_position<T, F: FnMut(&T) -> bool>(v: &Vec<T>, f: F) -> (r: Option<usize>)
    requires forall|t: &T| #[trigger] f.requires((t,)),
    ensures
        match r {
            Some(p) => p < v@.len() && f.ensures((&v@[p as int],), true) && forall|i: int| 0 <= i < p ==> f.ensures((&#[trigger] v@[i],), false),
            None => forall|i: int| 0 <= i < v@.len() ==> f.ensures((&#[trigger] v@[i],), false),
        },
{ unimplemented!() }
pub uninterp spec fn conj_of(conds: Seq<rq::Expr>) -> Option<OpaqueT>;
#[verifier::external_body]
pub fn filter_of_conditions(exprs: Vec<rq::Expr>, context: &mut Context) -> (r: Result<Option<OpaqueT>, Error>)
    ensures r is Ok ==> r->Ok_0 == conj_of(exprs@),
{ unimplemented!() }
pub type Context = OpaqueT;
#[verifier::external_body]
pub fn drain_from<T>(v: &mut Vec<T>, p: usize) -> (r: Vec<T>)
    requires p <= old(v)@.len(),
    ensures final(v)@ == old(v)@.subrange(0, p as int), r@ == old(v)@.subrange(p as int, old(v)@.len() as int),
{ unimplemented!() }
"""


def build(X):
    # ---- Pluck
    tr = X.type_item(UTILS, "trait", "Pluck")
    im = X.impl(UTILS, "impl<T> Pluck<T> for Vec<T>")
    # contract on the trait declaration (Verus: an impl cannot add requires)
    tr.text, n = re.subn(r"(F: Fn\(T\) -> Result<R, T>)\s*;", r"""\1,
        requires forall|t: T| #[trigger] f.requires((t,)),
        ensures
            // nothing lost or duplicated, order kept on both sides, each element classified by f
            exists|mi: Seq<int>, ri: Seq<int>| #[trigger] plucked(old(self).spec_items(), f, matched@, final(self).spec_items(), mi, ri, old(self).spec_items().len() as int), // @PL1
            matched@.len() + final(self).spec_items().len() == old(self).spec_items().len(), // @PL2
        ;""", tr.text, count=1)
    if n != 1:
        raise ExtractionError("trait Pluck: method declaration not recognised")
    tr.rewrites.append({"rule": "contract", "what": "requires/ensures spliced into the trait method declaration"})
    tr.drop_attrs()
    tr.rewrite("R3", "fn pluck<R, F>(&mut self, f: F) -> Vec<R>", "spec fn spec_items(&self) -> Seq<T>;\n    fn pluck<R, F>(&mut self, f: F) -> (matched: Vec<R>)",
               why="named return value; spec accessor for the implementing collection's items")
    im.rewrite("R3", "fn pluck<R, F>(&mut self, f: F) -> Vec<R>", "open spec fn spec_items(&self) -> Seq<T> { self@ }\n    fn pluck<R, F>(&mut self, f: F) -> (matched_out: Vec<R>)", why="named return value")
    im.rewrite_re("R5", r"\bself\.drain\(\.\.\)", "verif_drain_all(self)", count=None, why="Vec::drain(..) over the full range")
    im.rewrite_re("R5", r"\bself\.extend\(not_matched\)", "vec_extend(self, not_matched)", count=None, why="Vec::extend")
    it = im.desugar_for(1, fn_name="pluck")
    im.insert_at_body_start("let ghost all = self@; let ghost mut mi: Seq<int> = Seq::empty(); let ghost mut ri: Seq<int> = Seq::empty();",
                            "ghost: original items and the positions of matched / remaining elements", fn_name="pluck")
    im.loop_contract(1, """
        invariant
            %(it)s.all() == all, 0 <= %(it)s.pos() <= all.len(),
            forall|t: T| #[trigger] f.requires((t,)),
            plucked(all, f, matched@, not_matched@, mi, ri, %(it)s.pos()), // @PLI
        ensures %(it)s.pos() == all.len(),
        decreases all.len() - %(it)s.pos(),
    """ % {"it": it}, fn_name="pluck")
    im.insert_in_loop(1, "let ghost k0 = %(it)s.pos() - 1; let ghost m0 = matched@.len(); let ghost mi0 = mi; let ghost ri0 = ri;" % {"it": it}, """
        proof {
            if matched@.len() == m0 + 1 { mi = mi0.push(k0); } else { ri = ri0.push(k0); }
            assert(forall|i: int| 0 <= i < mi0.len() ==> mi[i] == mi0[i]);
            assert(forall|i: int| 0 <= i < ri0.len() ==> ri[i] == ri0[i]);
        }
    """, "ghost bookkeeping: the element just classified sat at position k0", fn_name="pluck")
    im.insert_before("matched\n", "proof { assert(self@ =~= not_matched@); assert(plucked(all, f, matched@, self@, mi, ri, all.len() as int)); assert(plucked(old(self).spec_items(), f, matched@, self.spec_items(), mi, ri, old(self).spec_items().len() as int)); }", "proof hint: witnesses of the partition", nth=None)

    # ---- BreakUp
    tb = X.type_item(UTILS, "trait", "BreakUp")
    ib = X.impl(UTILS, "impl<T> BreakUp<T> for Vec<T>")
    tb.rewrite("R3", "fn break_up<F>(self, f: F) -> (Vec<T>, Vec<T>)", "spec fn spec_items2(&self) -> Seq<T>;\n    fn break_up<F>(self, f: F) -> (r: (Vec<T>, Vec<T>))", why="named return value; spec accessor")
    tb.text = re.sub(r"(F: FnMut\(&T\) -> bool)\s*;", r"""\1,
        requires forall|t: &T| #[trigger] f.requires((t,)),
        ensures
            // the two parts are the original vector, cut once
            r.0@ + r.1@ == self.spec_items2(), // @BU1
            // nothing before the cut satisfies f ..
            forall|i: int| 0 <= i < r.0@.len() ==> f.ensures((&#[trigger] r.0@[i],), false), // @BU2
            // .. and the element at the cut does
            r.1@.len() > 0 ==> f.ensures((&r.1@[0],), true), // @BU3
        ;""", tb.text, count=1)
    tb.rewrites.append({"rule": "contract", "what": "requires/ensures spliced into the trait method declaration"})
    ib.rewrite("R3", "fn break_up<F>(mut self, f: F) -> (Vec<T>, Vec<T>)", "open spec fn spec_items2(&self) -> Seq<T> { self@ }\n    fn break_up<F>(self, f: F) -> (r: (Vec<T>, Vec<T>))",
               why="named return value; `mut self` (unsupported by Verus) becomes `self` + `let mut self_ = self;`, body occurrences of `self` alpha-renamed to `self_`")
    head, body = ib.text.split("F: FnMut(&T) -> bool,\n    {", 1)
    body = re.sub(r"\bself\b", "self_", body)
    ib.text = head + "F: FnMut(&T) -> bool,\n    {\n        let mut self_ = self; let ghost r0 = self_@;" + body
    ib.rewrite_re("R5", r"\bself_\.iter\(\)\.position\(f\)", "iter_position(&self_, f)", count=None, why="Iterator::position")
    ib.rewrite_re("R5", r"\bself_\.drain\(position\.\.\)\.collect_vec\(\)", "drain_from(&mut self_, position)", count=None, why="Vec::drain(p..).collect_vec()")
    ib.insert_before("(self_, after)", "proof { assert(self_@ + after@ =~= r0); }", "proof hint: the two halves are the original", nth=None)
    # ---- WHERE / HAVING
    model = common_rq.rq_module(X)
    st = X.type_item(PQ_AST, "enum", "SqlTransform").drop_attrs()
    st.rewrite("R6", "pub enum SqlTransform<Rel = RIId, Super = rq::Transform> {", "pub enum SqlTransform<Rel, Super> {", why="default type parameters dropped; instantiated below")
    pq = (st.text + """
pub type RelationExpr = OpaqueT;
pub type Transform = SqlTransform<RelationExpr, ()>;
pub open spec fn into_filter_spec(t: Transform) -> Result<rq::Expr, Transform> { match t { SqlTransform::Filter(e) => Ok(e), other => Err(other) } }
impl SqlTransform<RelationExpr, ()> {
    #[verifier::external_body] pub fn into_filter(self) -> (r: Result<rq::Expr, Transform>) ensures r == into_filter_spec(self), { unimplemented!() }
}
pub open spec fn is_agg(t: Transform) -> bool { t is Aggregate || t is Union }
// first position of an aggregate / union, or the length
pub open spec fn cut_at(p: Seq<Transform>, a: int) -> bool {
    0 <= a <= p.len() && (forall|i: int| 0 <= i < a ==> !is_agg(#[trigger] p[i])) && (a < p.len() ==> is_agg(p[a]))
}
// conds are conditions of filters of p[lo..hi), in pipeline order
pub open spec fn filters_within(conds: Seq<rq::Expr>, p: Seq<Transform>, lo: int, hi: int) -> bool {
    exists|idx: Seq<int>| #[trigger] idx.len() == conds.len()
        && (forall|j: int| 0 <= j < idx.len() ==> lo <= #[trigger] idx[j] < hi && p[idx[j]] is Filter && p[idx[j]]->Filter_0 == conds[j])
        && (forall|i: int, j: int| 0 <= i < j < idx.len() ==> idx[i] < idx[j])
}
""")
    wh = X.slice(GEN_QUERY, "translate_select_pipeline", "let (mut before_agg, mut after_agg) =", "let having = filter_of_conditions(", name="where_having_slice", end_stmt=True)
    wh.rewrite_re("R3", r"\|t\| (matches!\(t, (?:[^()]|\([^()]*\))*\))",
                  r"|t: &Transform| -> (b: bool) ensures b == is_agg(*t) { \1 }", count=1, why="closure parameter type and contract (checked against its body)")
    wh.rewrite_re("R3", r"\|t\| t\.into_filter\(\)", "|t: Transform| -> (r: Result<rq::Expr, Transform>) ensures r == into_filter_spec(t) { t.into_filter() }", count=2,
                  why="closure parameter type and contract (checked against its body)")
    # R12 (A-normal form): closure arguments and the plucked vectors are hoisted into `let` bindings so that the proof can name them; evaluation order is unchanged
    CL_AGG = r"(\|t: &Transform\| -> \(b: bool\) ensures b == is_agg\(\*t\) \{ [^\n]*? \})"
    CL_FLT = r"(\|t: Transform\| -> \(r: Result<rq::Expr, Transform>\) ensures r == into_filter_spec\(t\) \{ t\.into_filter\(\) \})"
    wh.rewrite_re("R12", r"let \(mut before_agg, mut after_agg\) =\s*pipeline\.break_up\(" + CL_AGG + r"\);",
                  r"let f_agg = \1;\n    let (mut before_agg, mut after_agg) = pipeline.break_up(f_agg);\n    let ghost b0 = before_agg@; let ghost a0 = after_agg@;", count=1,
                  why="closure hoisted into a let; ghost snapshots of the two parts")
    wh.rewrite_re("R12", r"let where_ = filter_of_conditions\((\w+)\.pluck\(" + CL_FLT + r"\), ctx\)\?;",
                  r"let f_w = \2; let ghost gf_w = f_w;\n    let w_conds = \1.pluck(f_w); let ghost w0 = w_conds@;\n    let where_ = filter_of_conditions(w_conds, ctx)?;", count=1,
                  why="closure and plucked vector hoisted into lets")
    wh.rewrite_re("R12", r"let having = filter_of_conditions\((\w+)\.pluck\(" + CL_FLT + r"\), ctx\)\?;",
                  r"let f_h = \2; let ghost gf_h = f_h;\n    let h_conds = \1.pluck(f_h); let ghost h0 = h_conds@;\n    let having = filter_of_conditions(h_conds, ctx)?;", count=1,
                  why="closure and plucked vector hoisted into lets")
    PROOF = """
    proof {
        let a = b0.len() as int;
        assert(pipeline@ =~= b0 + a0);
        assert(cut_at(pipeline@, a)) by {
            assert forall|i: int| 0 <= i < a implies !is_agg(#[trigger] pipeline@[i]) by { assert(pipeline@[i] == b0[i]); }
            if a < pipeline@.len() { assert(pipeline@[a] == a0[0]); }
        }
        let (mi, ri) = choose|mi: Seq<int>, ri: Seq<int>| plucked(b0, gf_w, w0, before_agg@, mi, ri, b0.len() as int);
        let (hi, si) = choose|hi: Seq<int>, si: Seq<int>| plucked(a0, gf_h, h0, after_agg@, hi, si, a0.len() as int);
        assert(filters_within(w0, pipeline@, 0, a)) by {
            assert forall|j: int| 0 <= j < mi.len() implies 0 <= #[trigger] mi[j] < a && pipeline@[mi[j]] is Filter && pipeline@[mi[j]]->Filter_0 == w0[j] by {
                assert(pipeline@[mi[j]] == b0[mi[j]]);
                assert(gf_w.ensures((b0[mi[j]],), Ok::<rq::Expr, Transform>(w0[j])));
            }
            assert(mi.len() == w0.len());
        }
        let hidx = Seq::new(hi.len(), |j: int| hi[j] + a);
        assert(filters_within(h0, pipeline@, a, pipeline@.len() as int)) by {
            assert forall|j: int| 0 <= j < hidx.len() implies a <= #[trigger] hidx[j] < pipeline@.len() && pipeline@[hidx[j]] is Filter && pipeline@[hidx[j]]->Filter_0 == h0[j] by {
                assert(pipeline@[hi[j] + a] == a0[hi[j]]);
                assert(gf_h.ensures((a0[hi[j]],), Ok::<rq::Expr, Transform>(h0[j])));
            }
            assert(hidx.len() == h0.len());
        }
        assert forall|k: int| 0 <= k < before_agg@.len() implies !(#[trigger] before_agg@[k] is Filter) by {
            assert(gf_w.ensures((b0[ri[k]],), Err::<rq::Expr, Transform>(before_agg@[k])));
        }
        assert forall|k: int| 0 <= k < after_agg@.len() implies !(#[trigger] after_agg@[k] is Filter) by {
            assert(gf_h.ensures((a0[si[k]],), Err::<rq::Expr, Transform>(after_agg@[k])));
        }
    }
"""
    wh.text = ("pub fn where_having_slice(pipeline: Vec<Transform>, ctx: &mut Context) -> (r: Result<(Option<OpaqueT>, Option<OpaqueT>, Vec<Transform>, Vec<Transform>), Error>)\n"
               "    ensures\n"
               "        // C01: WHERE is the conjunction of the filters BEFORE the first aggregate / union, in pipeline order ..\n"
               "        r is Ok ==> exists|a: int, w: Seq<rq::Expr>| #![trigger cut_at(pipeline@, a), conj_of(w)] cut_at(pipeline@, a) && r->Ok_0.0 == conj_of(w) && filters_within(w, pipeline@, 0, a), // @WH1\n"
               "        // .. HAVING the conjunction of those AFTER it\n"
               "        r is Ok ==> exists|a: int, h: Seq<rq::Expr>| #![trigger cut_at(pipeline@, a), conj_of(h)] cut_at(pipeline@, a) && r->Ok_0.1 == conj_of(h) && filters_within(h, pipeline@, a, pipeline@.len() as int), // @WH2\n"
               "        // no filter stays behind in either part ..\n"
               "        r is Ok ==> (forall|i: int| 0 <= i < r->Ok_0.2@.len() ==> !(#[trigger] r->Ok_0.2@[i] is Filter)) && (forall|i: int| 0 <= i < r->Ok_0.3@.len() ==> !(#[trigger] r->Ok_0.3@[i] is Filter)), // @WH3\n"
               "        // .. and none is lost: what is left plus what went to WHERE / HAVING is the whole pipeline\n"
               "        r is Ok ==> exists|w: Seq<rq::Expr>, h: Seq<rq::Expr>| r->Ok_0.0 == #[trigger] conj_of(w) && r->Ok_0.1 == #[trigger] conj_of(h)\n"
               "            && w.len() + h.len() + r->Ok_0.2@.len() + r->Ok_0.3@.len() == pipeline@.len(), // @WH4\n"
               "{\n    " + wh.text + PROOF + "\n    Ok((where_, having, before_agg, after_agg))\n}\n")
    wh.rewrites.append({"rule": "slice", "what": "the three statements that split the pipeline at the aggregate and build WHERE / HAVING, wrapped as fn where_having_slice(pipeline, ctx)"})

    return PRELUDE + model + pq + tr.text + "\n" + im.text + "\n" + tb.text + "\n" + ib.text + "\n" + wh.text + "\n} // verus!\nfn main() {}\n"
