"""Unit dialect_select: the dialect is the explicit option, else the `prql target:` header, else generic; unknown names are errors.

Real code under contract:
  prqlc/prqlc/src/sql/pq/gen_query.rs  compile_query: slice `let dialect = if let Some(dialect) = dialect { .. } else { .. };`
  prqlc/prqlc/src/lib.rs               <Target as FromStr>::from_str, enum Target, impl Default for Target
  prqlc/prqlc/src/sql/dialect.rs       enum Dialect
"""
import common_rq
import common_std
from extract import ExtractionError

PQ_GEN = "prqlc/prqlc/src/sql/pq/gen_query.rs"
LIB = "prqlc/prqlc/src/lib.rs"
DIALECT = "prqlc/prqlc/src/sql/dialect.rs"

LABELS = ["DS1a", "DS1b", "DS1c", "DS1d", "FS1", "FS2", "FS3", "FS4", "TD1", "CS1", "QD1"]
FUNCTIONS = ["find_query_def", "dialect_slice", "target_from_str", "target_default", "compile_slice"]
RLIMIT = 60

ASSUMED = [
    common_rq.OPAQUE_ASSUMPTION,
    common_std.STD_ASSUMPTION,
    {"what": "strum::EnumString for Dialect (Dialect::from_str) is the uninterpreted partial function dialect_of_name(); #[default] on "
             "Dialect::Generic is what Dialect::default() returns (derive output, checked by the thorough-tier Kani harness on the real crate)", "count": 3},
    {"what": "str::strip_prefix: Some(rest) iff s == prefix + rest; &str == &str compares character sequences; str::starts_with(prefix) iff s == prefix + rest; "
             "str::trim_start_matches(prefix) removes the prefix as often as it occurs", "count": 4},
    {"what": "query.def.other.get(\"target\") is the uninterpreted header_target(query) (HashMap<String,String> lookup)", "count": 3},
    {"what": "Option<Result<T,E>>::transpose has its std meaning; Option<Target>::unwrap_or_default returns Target::default() for None "
             "(R5: unwrap_or_default_target calls the real, verified Default impl)", "count": 1},
    {"what": "error construction (Error::new(Reason::NotFound{..}) + format!) is opaque_error()", "count": 1},
    {"what": "derived PartialEq on the field-less enum Dialect is equality of variants (PartialEqSpecImpl states `obeys`)", "count": 0},
    {"what": "gen_query::translate_query is external: its result is the uninterpreted translated_query(query, dialect)", "count": 2},
    {"what": "find_query_def: Module::get(ident) is the uninterpreted decl_at(); enum_as_inner as_query_def() gives the QueryDef of a QueryDef declaration; Ident is the real "
             "struct {path, name}; Vec<String>::clone and str::to_string are the identity", "count": 7},
]
TRUSTED = [
    "oracle (C18): option, then header, then generic; unknown target name is an error",
    "the clause 'never changes which programs the resolver accepts' is argued from signatures only (semantic::resolve_and_lower takes "
    "no Options) and is NOT checked",
    "the slice drops the rest of compile_query",
    "oracle (C18, multi-file projects): the header that counts for a pipeline is the one of the module (file) that declares it - the declaration `<path of main>._query_def`",
]

PRELUDE = r"""
#![allow(unused_imports, dead_code, unused_variables, unused_mut, unused_parens, non_snake_case)]
use vstd::prelude::*;
use std::result::Result::*;
verus! {
""" + common_rq.OPAQUE + common_std.STD_SPECS + r"""
pub uninterp spec fn dialect_of_name(name: Seq<char>) -> Option<sql::Dialect>;
pub uninterp spec fn header_target(q: RelationalQuery) -> Option<Seq<char>>;

#[verifier::external_body]
pub struct RelationalQuery { _p: u8 }

#[verifier::external_body]
pub fn query_header_target(q: &RelationalQuery) -> (r: Option<&String>)
    ensures match header_target(*q) { Some(s) => r is Some && r->0@ == s, None => r is None },
{ unimplemented!() }

#[verifier::external_body]
pub fn opaque_error() -> Error { unimplemented!() }

#[verifier::external_body]
pub fn strip_prefix<'a>(s: &'a str, prefix: &str) -> (r: Option<&'a str>)
    ensures match r { Some(rest) => s@ == prefix@ + rest@, None => forall|rest: Seq<char>| s@ != prefix@ + rest },
{ unimplemented!() }

#[verifier::external_body]
pub fn str_eq(a: &str, b: &str) -> (r: bool) ensures r == (a@ == b@), { unimplemented!() }
// str::starts_with / str::trim_start_matches with a literal prefix (the latter removes the prefix as often as it occurs)
pub open spec fn rep(p: Seq<char>, k: nat) -> Seq<char> decreases k { if k == 0 { Seq::empty() } else { p + rep(p, (k - 1) as nat) } }
#[verifier::external_body]
pub fn starts_with_lit(s: &str, prefix: &str) -> (r: bool) ensures r == (exists|rest: Seq<char>| s@ == prefix@ + rest), { unimplemented!() }
#[verifier::external_body]
pub fn trim_start_matches_lit<'a>(s: &'a str, prefix: &str) -> (r: &'a str)
    ensures exists|k: nat| s@ == rep(prefix@, k) + r@ && (k == 0 <==> forall|rest: Seq<char>| s@ != prefix@ + rest), forall|rest: Seq<char>| r@ != prefix@ + rest,
{ unimplemented!() }

pub assume_specification<T, E>[ Option::<Result<T, E>>::transpose ](o: Option<Result<T, E>>) -> (r: Result<Option<T>, E>)
    ensures
        match o {
            None => r == Ok::<Option<T>, E>(None),
            Some(Ok(x)) => r == Ok::<Option<T>, E>(Some(x)),
            Some(Err(e)) => r == Err::<Option<T>, E>(e),
        };

pub mod sql {
    use super::*;
"""

ORACLE = r"""
// ---------------------------------------------------------------- oracle (property C18)
// meaning of a target name: "sql.any" = no dialect chosen; "sql.<name>" = that dialect; anything else is not a target
pub open spec fn target_of_name(s: Seq<char>) -> Option<Target> {
    if s == "sql.any"@ { Some(Target::Sql(None)) }
    else if exists|n: Seq<char>| s == "sql."@ + n && dialect_of_name(n) is Some {
        let n = choose|n: Seq<char>| s == "sql."@ + n && dialect_of_name(n) is Some;
        Some(Target::Sql(dialect_of_name(n)))
    } else { None }
}
"""


def build(X):
    dialect = X.type_item(DIALECT, "enum", "Dialect").drop_attrs()
    dialect.text = "#[derive(Clone, Copy, PartialEq, Eq)]\n" + dialect.text
    sql_mod = dialect.text + r"""
    impl Dialect {
        #[verifier::external_body]
        pub fn from_str(s: &str) -> (r: Result<Dialect, OpaqueT>)
            ensures match dialect_of_name(s@) { Some(d) => r == Ok::<Dialect, OpaqueT>(d), None => r is Err },
        { unimplemented!() }
    }
    #[verifier::external_body]
    pub fn dialect_default() -> (r: Dialect) ensures r is Generic, { unimplemented!() }
    impl vstd::std_specs::cmp::PartialEqSpecImpl for Dialect {
        open spec fn obeys_eq_spec() -> bool { true }
        open spec fn eq_spec(&self, other: &Dialect) -> bool { *self == *other }
    }
}
"""
    target = X.type_item(LIB, "enum", "Target").drop_attrs()
    target.text = "#[derive(Clone, Copy)]\n" + target.text
    tdef = X.fn(LIB, "default", after="impl Default for Target")
    tdef.rewrite("R6", "fn default() -> Self", "pub fn target_default() -> Target", why="impl Default method as a free function")
    tdef.rewrite("R6", "Self::Sql(None)", "Target::Sql(None)", count=None)
    tdef.ret_name("r")
    tdef.contract("ensures r == Target::Sql(None), // @TD1")

    fs = X.fn(LIB, "from_str", after="impl FromStr for Target")
    fs.rewrite("R6", "Result<Target, Self::Err>", "Result<Target, Error>")
    fs.rewrite("R6", "fn from_str(", "pub fn target_from_str(", why="trait method as a free function")
    fs.rewrite_re("R5", r's\.strip_prefix\("sql\."\)', 'strip_prefix(s, "sql.")', count=None, why="str::strip_prefix has no Verus specification")
    fs.rewrite_re("R5", r's\.starts_with\(("[a-z.]+")\)', r"starts_with_lit(s, \1)", count=None, why="str::starts_with")
    fs.rewrite_re("R5", r's\.trim_start_matches\(("[a-z.]+")\)', r"trim_start_matches_lit(s, \1)", count=None, why="str::trim_start_matches (removes the prefix repeatedly)")
    fs.rewrite_re("R5", r'\bdialect == ("[a-z]+")', r"str_eq(dialect, \1)", count=None, why="&str == &str")
    fs.rewrite_re("R5", r"Error::new\(Reason::NotFound \{.*?\}\)", "opaque_error()", count=None, why="error construction is opaque")
    fs.desugar_str_match()
    fs.desugar_result_ctor_chains()
    fs.ret_name("r")
    fs.contract("""
        ensures
            s@ == "sql.any"@ ==> r == Ok::<Target, Error>(Target::Sql(None)), // @FS1
            forall|n: Seq<char>| (s@ == "sql."@ + n && n != "any"@ && dialect_of_name(n) is Some)
                ==> r == Ok::<Target, Error>(Target::Sql(dialect_of_name(n))), // @FS2
            // an unknown name is an error, never a silently chosen dialect
            (forall|n: Seq<char>| s@ != "sql."@ + n) ==> r is Err, // @FS3
            forall|n: Seq<char>| (s@ == "sql."@ + n && n != "any"@ && dialect_of_name(n) is None) ==> r is Err, // @FS4
    """)
    fs.insert_at_body_start('proof { reveal_strlit("sql."); reveal_strlit("any"); reveal_strlit("sql.any"); lemma_concat_inj(); assert("sql.any"@ =~= "sql."@ + "any"@); }', "proof hints")

    # everything between two stable neighbours: the stage log call and the construction of the anchor context
    sl = X.slice(PQ_GEN, "compile_query", "debug::log_stage(debug::Stage::Sql(debug::StageSql::Anchor));",
                 "let (anchor, main_relation) = AnchorContext::of(query);", name="dialect_slice", include_end=False)
    sl.rewrite("R1", "debug::log_stage(debug::Stage::Sql(debug::StageSql::Anchor));", "", why="debug stage marker")
    sl.rewrite_re("R5", r'query\s*\.def\s*\.other\s*\.get\("target"\)', "query_header_target(&query)", count=1, why="HashMap<String,String> lookup")
    sl.rewrite("R5", ".map(|s| Target::from_str(s))",
               ".map(|s: &String| -> (r: Result<Target, Error>) "
               "ensures exists|t: &str| t@ == s@ && call_ensures(target_from_str, (t,), r) { target_from_str(s.as_str()) })",
               why="closure given the contract of the function it calls; &String -> &str deref made explicit")
    # Option<Target>::unwrap_or_default (directly after the `.transpose()?` of the header lookup) vs Option<Dialect>::unwrap_or_default (every other one)
    sl.rewrite_re("R5", r"(\.transpose\(\)\?\s*)\.unwrap_or_default\(\)", r"\1.unwrap_or(target_default())", count=1,
                  why="Option<Target>::unwrap_or_default -> unwrap_or(target_default()) (the real, verified Default impl)")
    sl.rewrite_re("R5", r"\.unwrap_or_default\(\)", ".unwrap_or(sql::dialect_default())", count=None,
                  why="Option<Dialect>::unwrap_or_default -> unwrap_or(sql::dialect_default()) (#[default] Generic)")
    sl.text = ("pub fn dialect_slice(dialect: Option<sql::Dialect>, query: RelationalQuery) -> (res: Result<sql::Dialect, Error>)\n"
               "    ensures\n"
               "        // an explicit option wins, whatever the header says\n"
               "        dialect is Some ==> res == Ok::<sql::Dialect, Error>(dialect->0), // @DS1a\n"
               "        // no option, no header: generic\n"
               "        (dialect is None && header_target(query) is None) ==> (res is Ok && res->Ok_0 is Generic), // @DS1b\n"
               "        // no option: the header decides, through the one name table (Target::from_str)\n"
               "        (dialect is None && header_target(query) is Some && res is Ok) ==> exists|s: &str, t: Target|\n"
               "            s@ == header_target(query)->0 && call_ensures(target_from_str, (s,), Ok::<Target, Error>(t)) && (match t { Target::Sql(Some(d)) => res->Ok_0 == d, Target::Sql(None) => res->Ok_0 is Generic }), // @DS1c\n"
               "        (dialect is None && header_target(query) is Some && res is Err) ==> exists|s: &str, e: Error|\n"
               "            s@ == header_target(query)->0 && call_ensures(target_from_str, (s,), Err::<Target, Error>(e)), // @DS1d\n"
               "{\n    " + sl.text + "\n    Ok(dialect)\n}\n")
    sl.rewrites.append({"rule": "slice", "what": "wrapped as fn dialect_slice(dialect, query) -> Result<Dialect>"})

    lemma = r"""
proof fn lemma_concat_inj()
    ensures
        forall|a: Seq<char>, b: Seq<char>, c: Seq<char>| #[trigger] (a + b) == #[trigger] (a + c) ==> b == c,
{
    assert forall|a: Seq<char>, b: Seq<char>, c: Seq<char>| #[trigger] (a + b) == #[trigger] (a + c) implies b == c by {
        assert(b =~= (a + b).subrange(a.len() as int, (a + b).len() as int));
        assert(c =~= (a + c).subrange(a.len() as int, (a + c).len() as int));
    }
}
"""
    cs = X.slice("prqlc/prqlc/src/sql/mod.rs", "compile", "let crate::Target::Sql(dialect) = options.target;",
                 "let sql_ast = gen_query::translate_query(query, dialect)?;", name="compile_slice")
    cs.annotate_closures()
    cs.text = ("pub struct Options { pub target: Target }\nuse sql::Dialect;\n"
               "pub uninterp spec fn translated_query(q: RelationalQuery, d: Option<sql::Dialect>) -> OpaqueT;\n"
               "pub mod gen_query {\n    use super::*;\n    #[verifier::external_body]\n"
               "    pub fn translate_query(query: RelationalQuery, dialect: Option<sql::Dialect>) -> (r: Result<OpaqueT, Error>)\n"
               "        ensures r is Ok ==> r->Ok_0 == translated_query(query, dialect),\n    { unimplemented!() }\n}\n"
               "pub fn compile_slice(query: RelationalQuery, options: &Options) -> (r: Result<OpaqueT, Error>)\n"
               "    ensures\n"
               "        // the option's dialect (or None = 'consult the header') is handed to the generator unchanged\n"
               "        r is Ok ==> r->Ok_0 == translated_query(query, (match options.target { Target::Sql(d) => d })), // @CS1\n"
               "{\n    " + cs.text + "\n    Ok(sql_ast)\n}\n")
    cs.rewrites.append({"rule": "slice", "what": "first two statements of sql::compile wrapped as fn compile_slice(query, options); "
                        "Options is reduced to its `target` field; translate_query is external (uninterpreted result)"})
    # ---- which header: RootModule::find_query_def
    fq = X.fn("prqlc/prqlc/src/semantic/module.rs", "find_query_def").pub_all()
    fq.rewrite_re("R5", r"\bmain\.path\.clone\(\)", "clone_path(&main.path)", count=None, why="Vec<String>::clone")
    fq.rewrite_re("R5", r"\bNS_QUERY_DEF\.to_string\(\)", "ns_query_def()", count=None, why="constant name of the header declaration")
    fq.ret_name("r")
    fq.contract("""
        ensures
            // C18: the header of the module that declares `main` - looked up at exactly <path of main>._query_def - and no other
            r == qdef_of(decl_at(self.module, Ident { path: main.path, name: ns_query_def_spec() })), // @QD1
    """)
    qd = (r"""
pub struct Ident { pub path: Vec<String>, pub name: String }
pub struct QueryDef2 { pub _p: OpaqueT }
pub enum DeclKind2 { QueryDef(QueryDef2), Other(OpaqueT) }
pub struct Decl2 { pub kind: DeclKind2 }
impl DeclKind2 {
    #[verifier::external_body] pub fn as_query_def(&self) -> (r: Option<&QueryDef2>) ensures r == (match self { DeclKind2::QueryDef(q) => Some(q), _ => None::<&QueryDef2> }), { unimplemented!() }
}
#[verifier::external_body] pub struct Module2 { _p: u8 }
pub uninterp spec fn decl_at(m: Module2, i: Ident) -> Option<&'static Decl2>;
impl Module2 {
    #[verifier::external_body] pub fn get(&self, i: &Ident) -> (r: Option<&Decl2>) ensures r == decl_at(*self, *i), { unimplemented!() }
}
pub open spec fn qdef_of(d: Option<&Decl2>) -> Option<&QueryDef2> { match d { Some(d) => (match &d.kind { DeclKind2::QueryDef(q) => Some(q), _ => None::<&QueryDef2> }), None => None::<&QueryDef2> } }
pub uninterp spec fn ns_query_def_spec() -> String;
#[verifier::external_body] pub fn ns_query_def() -> (r: String) ensures r == ns_query_def_spec(), { unimplemented!() }
#[verifier::external_body] pub fn clone_path(p: &Vec<String>) -> (r: Vec<String>) ensures r == *p, { unimplemented!() }
pub struct RootModule { pub module: Module2 }
impl RootModule {
""" + fq.text.replace("Option<&QueryDef>", "Option<&QueryDef2>") + "\n}\n")
    body = sql_mod + target.text + "\n" + ORACLE + lemma + qd + tdef.text + "\n" + fs.text + "\n" + sl.text + "\n" + cs.text
    return PRELUDE + body + "\n} // verus!\nfn main() {}\n"


# ----------------------------------------------------------------------------- thorough tier: witness sweep on the real compiler
SWEEP_DOC = ("for every target `prqlc list-targets` prints: SQL under the explicit option == SQL with only the `prql target:` header; an explicit option overrides every "
             "other header; neither = sql.generic; an unknown header without option is an error (validates by execution the assumed contract of Target::from_str)")

_PROG = "from t\nselect {`a b`, c, d = c + 1}\nfilter c > 1\nsort c\ntake 2..5\n"
_EXTRA = ['from s"SELECT [a x], b FROM t"\nderive c = 1\n', 'from s"SELECT \\"a\\", b FROM t"\nderive c = 1\n', 'from s"SELECT `a`, b FROM t"\nfilter b > 1\n',
          "from [{n = 1}]\nloop (filter n < 4 | select n = n + 1)\nsort n\n",
          # declarations directly under the header line, and a name that the header's own declaration `prql` must not hide (round-7 seeds C18-13, C18-14)
          "module helpers {\n  let bump = x -> x + 1\n}\nfrom t\nselect {y = helpers.bump a}\n", "type money = int\nfrom t\nselect {a}\n",
          "from employees\nderive compiled_with = prql.version\nsort age\ntake 3\n",
          # a comment-only line directly under the header line, followed by an annotated / a doc-commented declaration (round-8 seed C18-15: the line break of the comment line counts)
          "# helpers\n@{binding_strength=11}\nlet plus_one = x -> x + 1\nfrom t\ntake 3\nselect (plus_one a) * 2\n",
          "# helpers\n#! adds one\nlet plus_one = x -> x + 1\nfrom t\ntake 3\nselect {b = plus_one a}\n"]

_ADJACENT = ["@{binding_strength=11}\nlet plus_one = x -> x + 1\nfrom t\ntake 3\nselect (plus_one a) * 2\n", "#! adds one\nlet plus_one = x -> x + 1\nfrom t\ntake 3\nselect {b = plus_one a}\n"]


def sweep():
    import subprocess
    import replaylib
    out = []
    names = [l.strip() for l in subprocess.run([replaylib.prqlc_bin(), "list-targets"], capture_output=True, text=True).stdout.split("\n") if l.strip().startswith("sql.")]
    names = [n for n in names if n != "sql.any"]

    def rec(lab, inp, failing, expected, observed):
        out.append({"obligation": "dialect_select." + lab, "input": inp, "failing": failing, "expected": expected, "observed": observed[:300], "replay_kind": "none"})

    ok_g, generic = replaylib.compile_prql(_PROG, "sql.generic")
    ok_n, neither = replaylib.compile_prql(_PROG, None)
    rec("DS1b", _PROG, not (ok_g and ok_n and generic == neither), "no option, no header = sql.generic", neither)
    for d in names:
        ok1, by_opt = replaylib.compile_prql(_PROG, d)
        ok2, by_hdr = replaylib.compile_prql("prql target:%s\n%s" % (d, _PROG), None)
        rec("DS1c", "header %s vs option %s" % (d, d), not (ok1 and ok2 and by_opt == by_hdr), by_opt, by_hdr)
        for e in names:
            if e == d:
                continue
            ok3, both = replaylib.compile_prql("prql target:%s\n%s" % (e, _PROG), d)
            if not (ok3 and both == by_opt):
                rec("DS1a", "option %s, header %s" % (d, e), True, by_opt, both)
        rec("DS1a", "option %s against every other header" % d, False, "", "")
    # programs whose SQL depends on dialect-specific paths of the lowering / the generator: s-strings written with a dialect's quoting, a loop (WITH RECURSIVE)
    for prog in _EXTRA:
        for d in names:
            r1 = replaylib.compile_prql(prog, d)
            r2 = replaylib.compile_prql("prql target:%s\n%s" % (d, prog), None)
            rec("DS1c", "header %s vs option %s: %s" % (d, d, prog.split("\n")[0][:60]), r1 != r2 or r1[1].startswith("PANIC"), r1[1], r2[1])
        for d, e in (("sql.postgres", "sql.mssql"), ("sql.sqlite", "sql.mysql"), ("sql.mssql", "sql.generic"), ("sql.generic", "sql.mssql")):
            r1 = replaylib.compile_prql(prog, d)
            r3 = replaylib.compile_prql("prql target:%s\n%s" % (e, prog), d)
            rec("DS1a", "option %s, header %s: %s" % (d, e, prog.split("\n")[0][:60]), r1 != r3, r1[1], r3[1])
    # a declaration with an annotation / a doc comment DIRECTLY under the header line (obligation DS1h: a finding of the unchanged tree - the header consumes its line break, and the
    # annotation needs one of its own)
    for prog in _ADJACENT:
        d = "sql.mssql"
        r1 = replaylib.compile_prql(prog, d)
        r2 = replaylib.compile_prql("prql target:%s\n%s" % (d, prog), None)
        rec("DS1h", "header %s vs option %s: %s" % (d, d, prog.split("\n")[0][:60]), r1 != r2 or r1[1].startswith("PANIC"), r1[1], r2[1])
    # multi-file project: the header that counts is the one of the file that declares the pipeline
    import tempfile, shutil, os
    w = tempfile.mkdtemp(prefix="verif_proj_")
    try:
        os.mkdir(os.path.join(w, "proj"))
        open(os.path.join(w, "proj", "Project.prql"), "w").write("prql target:sql.sqlite\n\nfrom invoices\ntake 5\n")
        open(os.path.join(w, "proj", "reports.prql"), "w").write("prql target:sql.mssql\n\n" + _PROG)
        env = dict(os.environ, RUST_BACKTRACE="0", NO_COLOR="1")
        run = lambda args: subprocess.run([replaylib.prqlc_bin(), "compile", "--hide-signature-comment"] + args, capture_output=True, text=True, env=env)
        by_hdr = run([os.path.join(w, "proj"), "-", "reports.main"])
        by_opt = run(["-t", "sql.mssql", os.path.join(w, "proj"), "-", "reports.main"])
        rec("QD1", "project {Project.prql: target sql.sqlite; reports.prql: target sql.mssql}, compile reports.main with and without -t sql.mssql",
            not (by_hdr.returncode == 0 and by_opt.returncode == 0 and by_hdr.stdout == by_opt.stdout), by_opt.stdout, by_hdr.stdout + by_hdr.stderr[:200])
    finally:
        shutil.rmtree(w, ignore_errors=True)
    # names that are not in `prqlc list-targets` are errors - as a header and as an option
    for bad_name in ("sql.nosuchdialect", "sql.sql.mssql", "sql.sql.any", "sql.sql.sql.sqlite", "mssql", "sql.", "sql.any.x", "sql.mssql.x", "SQL.mssql", "sql.MSSQL2", "sql.MsSql", "sql.DuckDB", "sql.POSTGRES", "sql.Sqlite"):
        ok4, bad = replaylib.compile_prql("prql target:%s\n%s" % (bad_name, _PROG), None)
        rec("FS3", "header %s, no option" % bad_name, ok4 or bad.startswith("PANIC"), "an error", bad)
        ok5, bad5 = replaylib.compile_prql(_PROG, bad_name)
        rec("FS3", "option -t %s" % bad_name, ok5 or bad5.startswith("PANIC"), "an error", bad5)
    return out


def replay(failure):
    for r in sweep():
        if r["failing"]:
            return r
    return {"failing": False}
