"""Unit sstring_cols: the columns declared for an s-string relation are the columns of its SELECT, once each, in the order the SELECT lists them.

Real code under contract:
  prqlc/prqlc/src/semantic/lowering.rs  try_extract_sql_columns: (a) the `match expr { .. }` of the closure that names one projection item (slice),
                                        (b) everything from `let sql_columns = match sql_columns {` to the end of the function (slice)
"""
import re

import common_rq
from extract import ExtractionError, code_tokens, match_brace

LOWERING = "prqlc/prqlc/src/semantic/lowering.rs"

LABELS = ["PN1", "PN2", "PN3", "SC0", "SC1", "SC2"]
FUNCTIONS = ["projection_name", "assemble_columns"]
RLIMIT = 60

ASSUMED = [
    {"what": "opaque external types", "keys": ["pub struct Opaque"]},
    {"what": "sqlparser AST shims with the real names: ast::Ident {value, quote_style}, ast::Expr {Identifier, CompoundIdentifier, Other}, ast::SelectItem "
             "{UnnamedExpr, ExprWithAlias, QualifiedWildcard, Wildcard}; format!(..) / \"..\".into() / .to_string() error texts are fmt_msg()",
     "keys": ["pub struct Ident", "pub enum Expr", "pub enum SelectItem", "fn fmt_msg", "spec fn rendered", "fn to_string"]},
    {"what": "iterator chains are shims with the documented meaning of the std / itertools adapters: `.into_iter().flatten().collect::<BTreeSet<String>>()` followed by "
             "iteration = the names in the set's own (alphabetical) order, each once (sorted_dedup, uninterpreted); `.into_iter().flatten().unique().collect::<Vec<String>>()` = "
             "the names in order of first occurrence, each once (dedup_first); `columns.into_iter().filter(|c| matches!(c, Single(_))).chain(names.into_iter().map(|n| "
             "Single(Some(n)))).collect()` = the Single columns followed by one Single column per name",
     "keys": ["fn flatten_collect_btreeset", "spec fn sorted_dedup", "fn flatten_unique_vec", "fn singles_then_names"]},
]
TRUSTED = [
    "oracle (C05): the frame of `from s\"SELECT c1, .., cn ..\"` is c1..cn: one column per item, in the order written (a name that occurs twice is declared once, at its "
    "first occurrence - the extraction deduplicates on purpose). A projection item may be given a name only if SQL gives the result column exactly that name and equal "
    "names mean the same column: a bare identifier or an explicit alias. A qualified `t.c` is NOT such an item (`e.id, d.id` are two columns), nor is an expression",
    "the slices drop: parsing of the s-string by sqlparser, the iteration over the interpolation items and over the projection",
]

PRELUDE = r"""
#![allow(unused_imports, dead_code, unused_variables, unused_mut, unused_parens, non_snake_case)]
use vstd::prelude::*;
use std::result::Result::*;
verus! {
""" + common_rq.OPAQUE + r"""
pub mod ast {
    use super::*;
    pub struct Ident { pub value: String, pub quote_style: Option<char> }
    // sqlparser's Display for Ident (read in the pinned source): the bare value without a quote style, otherwise the value wrapped in the quote character - NOT the name
    pub uninterp spec fn rendered(i: Ident) -> String;
    impl Ident {
        #[verifier::external_body] pub fn to_string(&self) -> (r: String) ensures r == rendered(*self), self.quote_style is None ==> r == self.value, { unimplemented!() }
    }
    pub enum Expr { Identifier(Ident), CompoundIdentifier(Vec<Ident>), Other(OpaqueT) }
    pub enum SelectItem { UnnamedExpr(Expr), ExprWithAlias { expr: Expr, alias: Ident }, QualifiedWildcard(OpaqueT, OpaqueT), Wildcard(OpaqueT) }
}
#[verifier::external_body] pub fn fmt_msg() -> String { unimplemented!() }
pub enum RelationColumn { Single(Option<String>), Wildcard }

// ---------------------------------------------------------------- specification of the column list
pub open spec fn flat(v: Seq<Vec<String>>) -> Seq<String>
    decreases v.len(),
{
    if v.len() == 0 { Seq::<String>::empty() } else { flat(v.drop_last()) + v.last()@ }
}
// each name once, at its first occurrence
pub open spec fn dedup_first(s: Seq<String>) -> Seq<String>
    decreases s.len(),
{
    if s.len() == 0 { Seq::<String>::empty() }
    else if dedup_first(s.drop_last()).contains(s.last()) { dedup_first(s.drop_last()) }
    else { dedup_first(s.drop_last()).push(s.last()) }
}
pub open spec fn singles(c: Seq<RelationColumn>) -> Seq<RelationColumn> { c.filter(|x: RelationColumn| x is Single) }
pub open spec fn named(s: Seq<String>) -> Seq<RelationColumn> { s.map_values(|n: String| RelationColumn::Single(Some(n))) }
// inferred columns that the s-string does not list
pub open spec fn others(c: Seq<RelationColumn>, names: Seq<String>) -> Seq<RelationColumn> {
    c.filter(|x: RelationColumn| x is Single && !(x->Single_0 is Some && names.contains(x->Single_0->0)))
}

// ---------------------------------------------------------------- iterator chains
pub uninterp spec fn sorted_dedup(s: Seq<String>) -> Seq<String>;
#[verifier::external_body]
pub fn flatten_collect_btreeset(v: Vec<Vec<String>>) -> (r: Vec<String>) ensures r@ == sorted_dedup(flat(v@)), { unimplemented!() }
#[verifier::external_body]
pub fn flatten_unique_vec(v: Vec<Vec<String>>) -> (r: Vec<String>) ensures r@ == dedup_first(flat(v@)), { unimplemented!() }
#[verifier::external_body]
pub fn singles_then_names(columns: Vec<RelationColumn>, names: Vec<String>) -> (r: Vec<RelationColumn>) ensures r@ == singles(columns@) + named(names@), { unimplemented!() }
"""


def build(X):
    f = X.fn(LOWERING, "try_extract_sql_columns")
    src = f.text
    # ---- (a) the closure that names one projection item
    m = re.search(r"\.map\(\|expr\| match expr \{", src)
    if not m:
        raise ExtractionError("try_extract_sql_columns: the closure `|expr| match expr { .. }` over the projection is not where the unit expects it")
    toks = code_tokens(src)
    k = next(i for i, t in enumerate(toks) if t[1] == m.end() - 1)
    e = toks[match_brace(src, toks, k)][2]
    pn = X.slice(LOWERING, "try_extract_sql_columns", "match expr {", "match expr {", name="projection_name")
    pn.text = src[m.end() - len("match expr {"):e]
    pn.rewrites.append({"rule": "slice", "what": "`match expr { .. }` (body of the closure mapped over select_stmt.projection) wrapped as fn projection_name(expr, has_wildcard); "
                        "the captured `has_wildcard` becomes a &mut parameter"})
    pn.rewrite_re("R5", r"format!\((?:[^()]|\([^()]*\))*\)", "fmt_msg()", count=None, why="error text")
    pn.rewrite_re("R5", r"\"[^\"]*\"\.(into|to_string)\(\)", "fmt_msg()", count=None, why="error text")
    pn.desugar_option_closures()
    pn.rewrite_re("R6", r"\bhas_wildcard = ", "*has_wildcard = ", count=None, why="captured variable is a &mut parameter")
    pn.text = ("pub fn projection_name(expr: ast::SelectItem, has_wildcard: &mut bool) -> (r: Result<String, String>)\n"
               "    ensures\n"
               "        // C05: a name only for a bare identifier (that name) or an explicit alias (the alias)\n"
               "        r is Ok ==> ((expr is UnnamedExpr && expr->UnnamedExpr_0 is Identifier && r->Ok_0 == expr->UnnamedExpr_0->Identifier_0.value)\n"
               "            || (expr is ExprWithAlias && r->Ok_0 == expr->ExprWithAlias_alias.value)), // @PN1\n"
               "        // a star makes the extraction give up: the relation keeps its wildcard\n"
               "        (expr is Wildcard || expr is QualifiedWildcard) ==> (r is Err && *final(has_wildcard)), // @PN2\n"
               "        !(expr is Wildcard || expr is QualifiedWildcard) ==> *final(has_wildcard) == *old(has_wildcard), // @PN3\n"
               "{\n    " + pn.text + "\n}\n")

    # ---- (b) assembling the column list
    tail = X.slice(LOWERING, "try_extract_sql_columns", "let sql_columns = match sql_columns {", "\n}", name="assemble_columns", include_end=False)
    tail.drop_logging()
    mm = re.search(r"let sql_columns = (match sql_columns \{.*?\n    \})\s*\.into_iter\(\)\s*\.flatten\(\)\s*(?://[^\n]*\n\s*)*(\.unique\(\)\s*)?\.collect::<(BTreeSet<String>|Vec<String>|Vec<_>)>\(\);", tail.text, re.S)
    if not mm:
        raise ExtractionError("try_extract_sql_columns: the flatten / dedup chain after `match sql_columns { .. }` has a shape the unit has no shim for")
    if mm.group(3) == "BTreeSet<String>" and not mm.group(2):
        shim = "flatten_collect_btreeset"
    elif mm.group(2) and mm.group(3).startswith("Vec"):
        shim = "flatten_unique_vec"
    else:
        raise ExtractionError("try_extract_sql_columns: flatten chain collects into %s%s: no shim" % (mm.group(3), " after unique()" if mm.group(2) else ""))
    tail.rewrite("R12", mm.group(0), "let sql_columns_nested = %s;\n    let sql_columns = %s(sql_columns_nested);" % (mm.group(1), shim),
                 why="A-normal form: the match is bound first; the iterator chain `.into_iter().flatten()..collect()` is the shim " + shim)
    tail.rewrite_re("R5", r"columns\s*\.into_iter\(\)\s*\.filter\(\|column\| matches!\(column, RelationColumn::Single\(_\)\)\)\s*\.chain\(\s*sql_columns\s*\.into_iter\(\)\s*"
                          r"\.map\(\|col\| RelationColumn::Single\(Some\(col\)\)\),?\s*\)\s*\.collect\(\)",
                    "singles_then_names(columns, sql_columns)", count=1, why="iterator chain filter / chain / map / collect")
    tail.text = ("pub fn assemble_columns(columns: Vec<RelationColumn>, sql_columns: Result<Vec<Vec<String>>, String>, has_wildcard: bool) -> (r: Vec<RelationColumn>)\n"
                 "    ensures\n"
                 "        // no extraction (an item that cannot be named, or a star): the relation keeps the columns the resolver inferred\n"
                 "        (sql_columns is Err || has_wildcard) ==> r@ == columns@, // @SC0\n"
                 "        // C05: the names of the s-string's SELECT are declared once each, in the order of their first occurrence ..\n"
                 "        (sql_columns is Ok && !has_wildcard) ==> exists|pre: Seq<RelationColumn>| r@ == pre + named(dedup_first(flat(sql_columns->Ok_0@))), // @SC1\n"
                 "        // .. and they are the first columns of the relation; inferred columns that are not among them follow\n"
                 "        (sql_columns is Ok && !has_wildcard) ==> r@ == named(dedup_first(flat(sql_columns->Ok_0@))) + others(columns@, dedup_first(flat(sql_columns->Ok_0@))), // @SC2\n"
                 "{\n    " + tail.text + "\n}\n")
    tail.rewrites.append({"rule": "slice", "what": "statements of try_extract_sql_columns from `let sql_columns = match sql_columns {` to the end wrapped as fn assemble_columns(columns, sql_columns, has_wildcard)"})
    # proof hint: the witness of SC1's `exists`
    tail.text = tail.text.replace("singles_then_names(columns, sql_columns)\n",
                                  "{ let verif_r = singles_then_names(columns, sql_columns); proof { assert(verif_r@ == singles(columns@) + named(sql_columns@)); } verif_r }\n", 1)
    return PRELUDE + pn.text + "\n" + tail.text + "\n} // verus!\nfn main() {}\n"


# ----------------------------------------------------------------------------- replay on the real compiler
def _cols(src, table_sql, cols_expected):
    import replaylib
    ok, sql = replaylib.compile_prql(src, "sql.sqlite")
    if not ok:
        return {"input": src, "expected": cols_expected, "observed": sql[:300], "failing": sql.startswith("PANIC"), "replay_kind": "columns"}
    import sqlite3
    con = sqlite3.connect(":memory:")
    con.executescript(table_sql)
    try:
        cur = con.execute(sql)
        got = [d[0] for d in cur.description]
    except Exception as e:  # noqa: BLE001
        return {"input": src, "expected": cols_expected, "observed": "sqlite error: %s\n%s" % (e, sql[:300]), "failing": True, "replay_kind": "columns"}
    return {"input": src, "expected": cols_expected, "observed": got, "failing": got != cols_expected, "replay_kind": "columns", "sql": sql}


SETUP = ("create table t(a integer, b integer, c integer); insert into t values (1,2,3),(4,5,6);"
         "create table e(id integer, dept integer, name text); create table d(id integer, title text); insert into e values (1,10,'x'); insert into d values (10,'dev');")

CASES = {
    "SC1": [('from s"SELECT b, a FROM t"\n', ["b", "a"]), ('from s"SELECT c, b, a FROM t"\n', ["c", "b", "a"]), ('from s"SELECT c, a, c, b FROM t"\n', ["c", "a", "b"])],
    "SC2": [('from s"SELECT b, a FROM t"\nfilter a > 0\n', ["b", "a"]), ('from s"SELECT c, b, a FROM t"\nsort a\n', ["c", "b", "a"]),
            ('from s"SELECT b, a FROM t"\nderive x = a + 1\n', ["b", "a", "x"])],
    "PN1": [('from s"SELECT e.id, d.id, d.title FROM e JOIN d ON d.id = e.dept"\n', ["id", "id:1", "title"]),
            ('from s"SELECT e.id, d.id, d.title FROM e JOIN d ON d.id = e.dept"\nfilter title != \'none\'\n', ["id", "id:1", "title"])],
}


def replay(failure):
    lab = failure.get("obligation", "").split(".")[-1]
    for key in ([lab] if lab in CASES else list(CASES)):
        for src, exp in CASES[key]:
            r = _cols(src, SETUP, exp)
            if r["failing"]:
                return r
    return {"failing": False}


def rerun(doc):
    return _cols(doc["input"], SETUP, doc["expected"])


SWEEP_DOC = ("s-string relations whose SELECT lists columns out of alphabetical order, repeats one, or qualifies them; with and without a following filter / sort / derive: "
             "compiled by the real prqlc, executed on SQLite; the result's column names must be the s-string's columns in its order")


def sweep():
    out = []
    for key, cases in CASES.items():
        for src, exp in cases:
            r = _cols(src, SETUP, exp)
            r["obligation"] = "sstring_cols." + key
            out.append(r)
    return out
