"""Unit star_cols: which explicitly selected columns a following `*` absorbs (SQL side), and how `T.*` of a frame is expanded into the closing Select (resolver side).

Real code under contract:
  prqlc/prqlc/src/sql/gen_projection.rs  translate_wildcards: body of `if let Some((_, in_star)) = &mut star { .. }` (removal of preceding columns the star includes)
  prqlc/prqlc/src/semantic/lowering.rs   Lowerer::push_select: the loop `for (col, (cid, _)) in input_cols { .. }` of the LineageColumn::All arm
"""
import re

import common_rq
import common_std
from extract import ExtractionError, code_tokens, match_brace, find_block_open

GEN_PROJ = "prqlc/prqlc/src/sql/gen_projection.rs"
LOWERING = "prqlc/prqlc/src/semantic/lowering.rs"

LABELS = ["AB1", "AB2", "AB3", "ABI", "XA1", "XAI"]
FUNCTIONS = ["absorb_preceding_slice", "expand_all_slice"]
RLIMIT = 80

ASSUMED = [
    {"what": "opaque external types", "keys": ["pub struct Opaque"]},
    {"what": "HashSet<CId> is the shim CidSet with a ghost Set view (remove returns whether the element was present); Vec::pop / push have their vstd meaning; "
             "a re-ordering / filtering call on the vector (retain, sort ..) is over-approximated by `any vector` (verif_reorder)",
     "keys": ["struct CidSet", "fn view", "fn remove"]},
    common_std.REORDER_ASSUMPTION,
    common_std.VERIF_ITER_ASSUMPTION,
    {"what": "push_select: the list input_cols (the input's known columns, not excepted, sorted by position) is a parameter of the slice; RelationColumn::clone is the identity",
     "keys": ["fn clone_col"]},
]
TRUSTED = [
    "oracle (C05): the result has one column per column of the final frame, in frame order. SQL side: an explicitly selected column may be dropped from the projection "
    "only if it sits IMMEDIATELY before a star that includes it (the star then supplies it at that position); everything else keeps its place and order. Resolver "
    "side: `T.*` contributes every known column of T that is not excepted - each of them, in position order, whatever was selected before",
    "the slices drop the rest of translate_wildcards (bookkeeping of the current star and of the exclusion sets) and of push_select",
]

PRELUDE = r"""
#![allow(unused_imports, dead_code, unused_variables, unused_mut, unused_parens, non_snake_case)]
use vstd::prelude::*;
use std::result::Result::*;
verus! {
""" + common_rq.OPAQUE + common_std.REORDER + common_std.VERIF_ITER + r"""
#[derive(Clone, Copy)] pub struct CId(pub usize);
#[verifier::external_body] pub struct CidSet { _p: u8 }
impl CidSet {
    pub uninterp spec fn view(&self) -> Set<CId>;
    #[verifier::external_body]
    pub fn remove(&mut self, c: &CId) -> (r: bool) ensures r == old(self).view().contains(*c), final(self).view() == old(self).view().remove(*c), { unimplemented!() }
}
pub type RelationColumn = OpaqueT;
#[verifier::external_body] pub fn clone_col(c: &RelationColumn) -> (r: RelationColumn) ensures r == *c, { unimplemented!() }
"""


def build(X):
    # ---- SQL side: columns absorbed by the star
    ab = X.if_blocks(GEN_PROJ, "translate_wildcards", "if let Some((_, in_star)) = &mut star {", name="absorb_preceding_slice", need_else=False)[0]
    ab.shim_reorderings()
    ab.text = ab.text.replace("verif_reorder(&mut output)", "verif_reorder(output)")   # `output` is the &mut parameter of the wrapper
    has_loop = re.search(r"\b(while|loop|for)\b", ab.text) is not None
    ab.text = ("pub fn absorb_preceding_slice(output: &mut Vec<CId>, in_star: &mut CidSet)\n"
               "    ensures\n"
               "        // C05: what stays is a PREFIX of the projection built so far: nothing is reordered and only trailing columns are dropped ..\n"
               "        final(output)@.len() <= old(output)@.len() && final(output)@ =~= old(output)@.take(final(output)@.len() as int), // @AB1\n"
               "        // .. and every dropped column is one the star includes (it supplies the column at this position)\n"
               "        forall|j: int| final(output)@.len() <= j < old(output)@.len() ==> old(in_star).view().contains(#[trigger] old(output)@[j]), // @AB2\n"
               "        // the star's pending set only shrinks (what is left of it is what will be excluded)\n"
               "        final(in_star).view().subset_of(old(in_star).view()), // @AB3\n"
               "{\n    " + ab.text + "\n}\n")
    ab.rewrites.append({"rule": "slice", "what": "body of `if let Some((_, in_star)) = &mut star { .. }` of translate_wildcards wrapped as fn absorb_preceding_slice(output, in_star)"})
    if has_loop:
        ab.loop_contract(1, """
        invariant
            output@.len() <= old(output)@.len(), output@ =~= old(output)@.take(output@.len() as int),
            forall|j: int| output@.len() <= j < old(output)@.len() ==> old(in_star).view().contains(#[trigger] old(output)@[j]), // @ABI
            in_star.view().subset_of(old(in_star).view()),
        decreases output@.len(),
        """, fn_name="absorb_preceding_slice")
    else:
        ab.text += "\n// no loop left in the slice: the loop invariant has nothing to attach to // @ABI\n"

    # ---- resolver side: expansion of T.*
    ps = X.fn(LOWERING, "push_select")
    m = re.search(r"for \(col, \(cid, _\)\) in input_cols \{", ps.text)
    if not m:
        raise ExtractionError("push_select: loop over input_cols not found")
    toks = code_tokens(ps.text)
    k = next(i for i, t in enumerate(toks) if t[1] == m.start())
    b = find_block_open(ps.text, toks, k + 1)
    e = toks[match_brace(ps.text, toks, b)][2]
    ps.text = ps.text[m.start():e]
    ps.name = "expand_all_slice"
    ps.rewrites.append({"rule": "slice", "what": "the loop `for (col, (cid, _)) in input_cols { .. }` of push_select's LineageColumn::All arm wrapped as fn expand_all_slice(input_cols, columns)"})
    ps.drop_logging()
    ps.rewrite_re("R5", r"\bcol\.clone\(\)", "clone_col(col)", count=None, why="RelationColumn::clone")
    ps.text = ("pub fn expand_all_slice(input_cols: Vec<(&RelationColumn, &(CId, usize))>, columns: &mut Vec<(RelationColumn, CId)>)\n"
               "    ensures\n"
               "        // C05: `T.*` contributes EVERY listed column of T, in order, after what was selected before - none skipped, none reordered\n"
               "        final(columns)@.len() == old(columns)@.len() + input_cols@.len()\n"
               "            && final(columns)@.take(old(columns)@.len() as int) =~= old(columns)@\n"
               "            && forall|i: int| 0 <= i < input_cols@.len() ==> #[trigger] final(columns)@[old(columns)@.len() + i] == (*input_cols@[i].0, input_cols@[i].1.0), // @XA1\n"
               "{\n    " + ps.text + "\n}\n")
    it = ps.desugar_for(1, fn_name="expand_all_slice")
    ps.loop_contract(1, """
        invariant
            %(it)s.all() == input_cols@, 0 <= %(it)s.pos() <= input_cols@.len(),
            columns@.len() == old(columns)@.len() + %(it)s.pos(), columns@.take(old(columns)@.len() as int) =~= old(columns)@,
            forall|i: int| 0 <= i < %(it)s.pos() ==> #[trigger] columns@[old(columns)@.len() + i] == (*input_cols@[i].0, input_cols@[i].1.0), // @XAI
        ensures %(it)s.pos() == input_cols@.len(),
        decreases input_cols@.len() - %(it)s.pos(),
    """ % {"it": it}, fn_name="expand_all_slice")
    return PRELUDE + ab.text + "\n" + ps.text + "\n} // verus!\nfn main() {}\n"


# ----------------------------------------------------------------------------- replay / sweep on the real compiler + SQLite
SWEEP_DOC = ("selects that mix explicit columns with `T.*` (before, after, separated by a computed column, over a join): compiled by the real prqlc for sql.sqlite and executed "
             "by SQLite; the explicit columns must come first, in the written order, and every column of T must be in the result")

_CASES = [
    ("from employees\nselect {salary, double = salary * 2, employees.*}\n", ["salary", "double"], {"id", "name", "dept_id", "salary"}),
    ("from employees\nselect {salary, employees.*}\n", ["salary"], {"id", "name", "dept_id", "salary"}),
    ("from employees\nselect {name, salary, employees.*}\n", ["name", "salary"], {"id", "name", "dept_id", "salary"}),
    ("from e=employees\njoin d=departments (==dept_id)\nselect {d.title, e.dept_id, e.*}\n", ["title", "dept_id"], {"id", "name", "dept_id", "salary", "title"}),
    ("from e=employees\njoin d=departments (==dept_id)\nfilter e.salary > 5\nselect {e.salary, d.title, e.*}\n", ["salary", "title"], {"id", "name", "dept_id", "salary", "title"}),
    ("from employees\nselect {employees.*, bonus = salary / 10}\n", [], {"id", "name", "dept_id", "salary", "bonus"}),
]


def _try(prql, first, must_have):
    import sqlite3
    import replaylib
    rec = {"obligation": "star_cols.AB1", "input": prql, "replay_kind": "star", "first": first, "must_have": sorted(must_have),
           "expected": "result columns start with %r and contain %r" % (first, sorted(must_have))}
    ok, sql = replaylib.compile_prql(prql, "sql.sqlite")
    if not ok:
        rec.update(failing="PANIC" in sql, observed=sql[:300])
        return rec
    c = sqlite3.connect(":memory:")
    c.executescript("create table employees(id int, name text, dept_id int, salary int); create table departments(dept_id int, title text);"
                    "insert into employees values(1,'a',1,10); insert into departments values(1,'t');")
    try:
        cur = c.execute(sql)
        cols = [d[0] for d in cur.description]
    except Exception as e:
        rec.update(failing=True, observed="SQLite: %s" % e, sql=sql)
        return rec
    good = cols[:len(first)] == first and must_have <= set(cols)
    rec.update(failing=not good, observed="result columns %r" % cols, sql=sql)
    if not good and not (must_have <= set(cols)):
        rec["obligation"] = "star_cols.XA1"
    return rec


def sweep():
    return [_try(*c) for c in _CASES]


def replay(failure):
    for r in sweep():
        if r["failing"]:
            return r
    return {"failing": False}


def rerun(doc):
    return _try(doc["input"], doc["first"], set(doc["must_have"]))
