"""Unit fmt_entry: the text `prqlc fmt` (and the bindings) hand out is the text the code generator wrote, character for character.

Real code under contract (prqlc/prqlc/src/lib.rs):
  pl_to_prql (whole function)
"""
import common_rq

LIB = "prqlc/prqlc/src/lib.rs"

LABELS = ["FE1"]
FUNCTIONS = ["pl_to_prql"]
RLIMIT = 30

ASSUMED = [
    {"what": "opaque external types", "keys": ["pub struct Opaque"]},
    {"what": "codegen::WriteSource::write(&stmts, WriteOpt::default()) is Some(written(stmts)): the text of the code generator (units fmt_strings / fmt_interp / fmt_names / prql_prec / "
             "fmt_width hold its pieces) - with the default options (unbounded remaining width at the top level) it does not give up; pr::ModuleDef is the skeleton {name, stmts}",
     "keys": ["fn codegen_write", "spec fn written", "fn write_opt_default", "struct WriteOpt", "struct ModuleDef", "struct Stmt", "struct ErrorMessages"]},
]
TRUSTED = [
    "oracle (C14): the round-trip theorems of the formatter units are about the text the code generator writes (a string literal is written so that the lexer reads it back character for "
    "character - blanks, tabs and line breaks inside it included); they reach the user only if pl_to_prql hands that text out UNCHANGED",
]

PRELUDE = r"""
#![allow(unused_imports, dead_code, unused_variables, unused_mut, unused_parens, non_snake_case)]
use vstd::prelude::*;
verus! {
""" + common_rq.OPAQUE + r"""
#[verifier::external_body] pub struct Stmt { _p: u8 }
#[verifier::external_body] pub struct ErrorMessages { _p: u8 }
#[verifier::external_body] pub struct WriteOpt { _p: u8 }
pub mod pr { pub struct ModuleDef { pub name: String, pub stmts: Vec<super::Stmt> } }
pub uninterp spec fn written(stmts: Seq<Stmt>) -> Seq<char>;
#[verifier::external_body] pub fn write_opt_default() -> (r: WriteOpt) { unimplemented!() }
#[verifier::external_body] pub fn codegen_write(stmts: &Vec<Stmt>, opt: WriteOpt) -> (r: Option<String>)
    ensures r is Some, r->Some_0@ == written(stmts@),
{ unimplemented!() }
"""


def build(X):
    f = X.fn(LIB, "pl_to_prql")
    f.drop_attrs()
    f.rewrite_re("R5", r"codegen::WriteSource::write\(\s*&pl\.stmts,\s*codegen::WriteOpt::default\(\)\s*\)", "codegen_write(&pl.stmts, write_opt_default())", count=1,
                 why="the code generator's entry point, called on the statements of the module with the default options")
    f.ret_name("r")
    f.contract("    ensures\n"
               "        // C14: what is handed out is the text the code generator wrote\n"
               "        r is Ok && r->Ok_0@ == written(pl.stmts@), // @FE1\n")
    return PRELUDE + f.text + "\n} // verus!\nfn main() {}\n"
