"""Unit select_shape: names and membership of the projection.

Real code under contract:
  prqlc/prqlc/src/sql/gen_expr.rs        translate_select_item
  prqlc/prqlc/src/sql/gen_projection.rs  deduplicate_select_items: body of the `retain` closure (slice)
  prqlc/prqlc/src/sql/pq/postprocess.rs  SortingInference::fold_sql_transforms: slice `if !self.main_relation { .. }`
"""
import re

import common_rq
import common_std
from extract import ExtractionError, code_tokens, match_brace

GEN_EXPR = "prqlc/prqlc/src/sql/gen_expr.rs"
GEN_PROJ = "prqlc/prqlc/src/sql/gen_projection.rs"
POSTPROCESS = "prqlc/prqlc/src/sql/pq/postprocess.rs"

RLIMIT = 60
LABELS = ["SS2a", "SS2b", "SS2c", "DD1", "DD2", "DD3", "SS3a", "SS3b"]
FUNCTIONS = ["translate_select_item", "dedup_keep", "cte_sort_columns"]

ASSUMED = [
    {"what": "opaque external types (OpaqueT, Opaque<T>, OpaqueOf<T>)", "keys": ["pub struct Opaque"]},
    {"what": "translate_cid is external (uninterpreted cid_expr); the inferred result-set name of an expression (last part of a compound identifier, "
             "never `*`) is the uninterpreted inferred_name(); translate_ident_part keeps the text (ident_quote unit)",
     "keys": ["cid_expr", "spec fn inferred_name", "fn translate_cid", "fn inferred_name_of", "fn translate_ident_part", "spec fn ast", "fn into_ast"]},
    {"what": "ctx.anchor.column_names is a map CId -> String (shim NameMap: get / insert as a map); NameGenerator::gen returns a name that no column "
             "carries yet (fresh_name, ids_names unit)", "keys": ["struct NameMap", "fn view", "fn get", "fn insert", "struct NameGen", "fn gen", "fn fresh_name", "spec fn taken"]},
    {"what": "Option<&String> != Option<&String> compares the character sequences (opt_name_ne); String::to_string / clone keep the characters",
     "keys": ["fn opt_name_ne", "fn clone_string", "fn opt_cloned"]},
    {"what": "sqlparser SelectItem / Ident are shims with the real variant and field names; HashSet<Ident> is the shim IdentSet keyed by (value, quote_style); "
             "`idents.iter().any(|ident| seen.insert(KEY))` is insert_any_* : inserts the keys in order until one is new",
     "keys": ["struct IdentSet", "fn insert", "fn insert_any_exact", "fn insert_any_other", "spec fn other_key", "fn insert_other", "fn clone_ident"]},
    {"what": "Vec<CId>::contains is membership (cid_vec_contains); the sort columns a CTE has to carry are gathered by external, here unconstrained functions "
             "(unit sort_infer SC1-3 is about which columns those are)", "keys": ["fn cid_vec_contains", "fn emitted_sort_columns", "fn extend_sort_columns"]},
    common_std.STR_PREDS_ASSUMPTION,
]
TRUSTED = [
    "oracle (C05): a column that has a name in PRQL carries exactly that name in the result set; a selected column is dropped only as an exact "
    "duplicate; helper sort columns are added to CTE projections only",
    "the slices drop: the computation of inferred_name, the iteration of `retain`, the search of the Select inside the CTE pipeline",
]

PRELUDE = r"""
#![allow(unused_imports, dead_code, unused_variables, unused_mut, unused_parens, non_snake_case)]
use vstd::prelude::*;
use std::result::Result::*;
verus! {
""" + common_rq.OPAQUE + common_std.STR_PREDS + r"""
pub mod sql_ast {
    use super::*;
    pub type Expr = OpaqueT;
    pub struct Ident { pub value: String, pub quote_style: Option<char> }
}
pub enum SelectItem {
    UnnamedExpr(sql_ast::Expr),
    ExprWithAlias { expr: sql_ast::Expr, alias: sql_ast::Ident },
    QualifiedWildcard(OpaqueT, OpaqueT),
    Wildcard(OpaqueT),
}

pub uninterp spec fn cid_expr(cid: rq::CId) -> sql_ast::Expr;
pub uninterp spec fn inferred_name(e: sql_ast::Expr) -> Option<Seq<char>>;

#[verifier::external_body]
pub struct NameMap { _p: u8 }
impl NameMap {
    pub uninterp spec fn view(&self) -> Map<rq::CId, Seq<char>>;
    #[verifier::external_body]
    pub fn get(&self, k: &rq::CId) -> (r: Option<&String>)
        ensures match r { Some(s) => self.view().contains_key(*k) && self.view()[*k] == s@, None => !self.view().contains_key(*k) },
    { unimplemented!() }
    #[verifier::external_body]
    pub fn insert(&mut self, k: rq::CId, v: String) ensures final(self).view() == old(self).view().insert(k, v@), { unimplemented!() }
}
#[verifier::external_body]
pub struct NameGen { _p: u8 }
pub uninterp spec fn taken(s: Seq<char>) -> bool;
impl NameGen {
    #[verifier::external_body]
    pub fn gen(&mut self) -> (r: String) ensures !taken(r@), { unimplemented!() }
}
pub struct AnchorContext { pub column_names: NameMap, pub col_name: NameGen }
pub struct Context { pub anchor: AnchorContext }

#[verifier::external_body]
pub fn translate_cid(cid: rq::CId, ctx: &mut Context) -> (r: Result<OpaqueOf<sql_ast::Expr>, Error>)
    ensures final(ctx).anchor == old(ctx).anchor,
{ unimplemented!() }
impl OpaqueOf<sql_ast::Expr> {
    pub uninterp spec fn ast(&self) -> sql_ast::Expr;
    #[verifier::external_body]
    pub fn into_ast(self) -> (r: sql_ast::Expr) ensures r == self.ast(), { unimplemented!() }
}
#[verifier::external_body]
pub fn inferred_name_of(e: &sql_ast::Expr) -> (r: Option<&String>)
    ensures match r { Some(s) => inferred_name(*e) == Some(s@), None => inferred_name(*e) is None },
{ unimplemented!() }
#[verifier::external_body]
pub fn opt_name_ne(a: Option<&String>, b: Option<&String>) -> (r: bool)
    ensures r == !((a is None && b is None) || (a is Some && b is Some && a->0@ == b->0@)),
{ unimplemented!() }
#[verifier::external_body]
pub fn opt_cloned(a: Option<&String>) -> (r: Option<String>)
    ensures match a { Some(s) => r is Some && r->0@ == s@, None => r is None },
{ unimplemented!() }
#[verifier::external_body]
pub fn clone_string(s: &String) -> (r: String) ensures r@ == s@, { unimplemented!() }
#[verifier::external_body]
pub fn translate_ident_part(ident: String, ctx: &Context) -> (r: sql_ast::Ident) ensures r.value@ == ident@, { unimplemented!() }

// ---- HashSet<Ident> shim
#[verifier::external_body]
pub struct IdentSet { _p: u8 }
pub uninterp spec fn other_key(i: sql_ast::Ident) -> int;
impl IdentSet {
    pub uninterp spec fn view(&self) -> Set<(Seq<char>, Option<char>)>;
    pub uninterp spec fn other(&self) -> Set<int>;
    #[verifier::external_body]
    pub fn insert(&mut self, i: sql_ast::Ident) -> (r: bool)
        ensures r == !old(self).view().contains((i.value@, i.quote_style)), final(self).view() == old(self).view().insert((i.value@, i.quote_style)),
    { unimplemented!() }
}
#[verifier::external_body]
pub fn clone_ident(i: &sql_ast::Ident) -> (r: sql_ast::Ident) ensures r == *i, { unimplemented!() }
// `idents.iter().any(|ident| seen.insert(ident.clone()))`: true iff some identifier of the list was not in the set yet
#[verifier::external_body]
pub fn insert_any_exact(seen: &mut IdentSet, idents: &Vec<sql_ast::Ident>) -> (r: bool)
    ensures
        r == (exists|i: int| 0 <= i < idents@.len() && !old(seen).view().contains(((#[trigger] idents@[i]).value@, idents@[i].quote_style))),
        forall|k: (Seq<char>, Option<char>)| old(seen).view().contains(k) ==> final(seen).view().contains(k),
{ unimplemented!() }
// the same with a key other than the identifier itself: the key function is unknown to the proof
#[verifier::external_body]
pub fn insert_any_other(seen: &mut IdentSet, idents: &Vec<sql_ast::Ident>) -> (r: bool)
    ensures r == (exists|i: int| 0 <= i < idents@.len() && !old(seen).other().contains(other_key(#[trigger] idents@[i]))),
{ unimplemented!() }
#[verifier::external_body]
pub fn insert_other(seen: &mut IdentSet, i: &sql_ast::Ident) -> (r: bool)
    ensures r == !old(seen).other().contains(other_key(*i)),
{ unimplemented!() }

#[verifier::external_body]
pub fn cid_vec_contains(v: &Vec<rq::CId>, c: &rq::CId) -> (r: bool) ensures r == v@.contains(*c), { unimplemented!() }
"""


def build(X):
    model = common_rq.rq_module(X)

    tsi = X.fn(GEN_EXPR, "translate_select_item").pub_all()
    tsi.rewrite("R6", "Result<SelectItem>", "Result<SelectItem, Error>")
    # the computation of inferred_name (iterator/closure chain over sqlparser types) is replaced by its contract
    m = re.search(r"let inferred_name = match &expr \{.*?\n    \.filter\(\|n\| \*n != \"\*\"\);", tsi.text, re.S)
    if not m:
        raise ExtractionError("translate_select_item: `let inferred_name = ..` statement not recognised")
    tsi.rewrite("R5", m.group(0), "let inferred_name = inferred_name_of(&expr);",
                why="last part of a compound identifier, never `*` (closure chain over sqlparser types): uninterpreted inferred_name()")
    tsi.rewrite_re("R5", r"\binferred_name != expected\b", "opt_name_ne(inferred_name, expected)", count=None,
                   why="Option<&String> comparison")
    tsi.rewrite("R5", "expected.cloned()", "opt_cloned(expected)", count=None, why="Option<&String>::cloned")
    tsi.rewrite("R5", "ident.to_string()", "clone_string(&ident)", count=None, why="String::to_string")
    tsi.rewrite_re("R8", r"let ident = (.*?)\.unwrap_or_else\(\|\| \{(.*?)\}\);",
                   lambda mm: "let ident = match %s { Some(v) => v, None => {%s} };" % (mm.group(1), mm.group(2)),
                   count=1, why="`opt.unwrap_or_else(|| BODY)` desugared to `match opt { Some(v) => v, None => BODY }` (Verus has no closures that "
                                "capture a mutable reference); same evaluation order and result")
    tsi.shim_str_predicates()
    tsi.ret_name("r")
    tsi.contract("""
        ensures
            // C05: a column whose expected name differs (exactly) from the name SQL would infer gets an alias with the expected name
            (r is Ok && r->Ok_0 is UnnamedExpr) ==> (
                (old(ctx).anchor.column_names.view().contains_key(cid) <==> inferred_name(r->Ok_0->UnnamedExpr_0) is Some)
                && (old(ctx).anchor.column_names.view().contains_key(cid)
                    ==> inferred_name(r->Ok_0->UnnamedExpr_0) == Some(old(ctx).anchor.column_names.view()[cid]))), // @SS2a
            (r is Ok && r->Ok_0 is ExprWithAlias && old(ctx).anchor.column_names.view().contains_key(cid))
                ==> r->Ok_0->ExprWithAlias_alias.value@ == old(ctx).anchor.column_names.view()[cid], // @SS2b
            // an unnamed column gets a generated alias that no column carries, never the inferred name of another column
            (r is Ok && r->Ok_0 is ExprWithAlias && !old(ctx).anchor.column_names.view().contains_key(cid))
                ==> !taken(r->Ok_0->ExprWithAlias_alias.value@), // @SS2c
    """)

    # ---- deduplicate_select_items: the closure body decides per item
    dd = X.fn(GEN_PROJ, "deduplicate_select_items")
    mm = re.search(r"items\.retain\(\|select_item\| (match select_item \{.*\})\);", dd.text, re.S)
    if not mm:
        raise ExtractionError("deduplicate_select_items: retain closure not recognised")
    body = mm.group(1)
    dd.rewrites.append({"rule": "slice", "what": "body of the closure passed to items.retain() wrapped as fn dedup_keep(select_item, seen) -> keep; "
                        "the iteration of `retain` itself is dropped"})

    def call_extent(text, start_lit):
        """(start, end, inner) of the call whose text starts with start_lit (which ends with the opening parenthesis)"""
        p0 = text.find(start_lit)
        if p0 < 0:
            return None
        toks = code_tokens(text[p0 + len(start_lit) - 1:])
        close = match_brace(text[p0 + len(start_lit) - 1:], toks, 0, "(", ")")
        end = p0 + len(start_lit) - 1 + toks[close][2]
        return p0, end, text[p0 + len(start_lit):end - 1]

    ce = call_extent(body, "idents.iter().any(")
    if ce is None:
        raise ExtractionError("deduplicate_select_items: `idents.iter().any(..)` not recognised")
    exact = " ".join(ce[2].split()) == "|ident| seen.insert(ident.clone())"
    body = body[:ce[0]] + ("insert_any_exact(seen, idents)" if exact else "insert_any_other(seen, idents)") + body[ce[1]:]
    ma = re.search(r"(SelectItem::ExprWithAlias \{ alias, \.\. \} => )(.*?)(,\s*\n)", body, re.S)
    if not ma:
        raise ExtractionError("deduplicate_select_items: ExprWithAlias arm not recognised")
    exact_a = " ".join(ma.group(2).split()) == "seen.insert(alias.clone())"
    body = body[:ma.start(2)] + ("seen.insert(clone_ident(alias))" if exact_a else "insert_other(seen, alias)") + body[ma.end(2):]
    dd.rewrites.append({"rule": "R5", "what": "`idents.iter().any(|ident| seen.insert(KEY))` -> insert_any_exact (KEY = ident.clone()) or insert_any_other "
                        "(any other key: unknown to the proof); `seen.insert(alias.clone())` likewise"})
    body = body.replace("sql_ast::Expr::CompoundIdentifier(idents)", "idents")
    dd.text = ("pub fn dedup_keep(select_item: &SelectItemView, seen: &mut IdentSet) -> (keep: bool)\n"
               "    ensures\n"
               "        // C05: a selected column is dropped only when it is an exact duplicate (same text, same quoting) of one kept before\n"
               "        (!keep && select_item is UnnamedExpr) ==> forall|i: int| 0 <= i < select_item->UnnamedExpr_0@.len()\n"
               "            ==> old(seen).view().contains(((#[trigger] select_item->UnnamedExpr_0@[i]).value@, select_item->UnnamedExpr_0@[i].quote_style)), // @DD1\n"
               "        (!keep && select_item is ExprWithAlias) ==> old(seen).view().contains((select_item->ExprWithAlias_alias.value@, select_item->ExprWithAlias_alias.quote_style)), // @DD2\n"
               "        (select_item is Other) ==> keep, // @DD3\n"
               "{\n    " + body.replace("SelectItem::UnnamedExpr(idents)", "SelectItemView::UnnamedExpr(idents)")
               .replace("SelectItem::ExprWithAlias {", "SelectItemView::ExprWithAlias {") + "\n}\n")
    view = ("// what the closure looks at: a compound identifier's parts, or an alias; everything else is `Other`\n"
            "pub enum SelectItemView { UnnamedExpr(Vec<sql_ast::Ident>), ExprWithAlias { expr: sql_ast::Expr, alias: sql_ast::Ident }, Other }\n")
    dd.rewrites.append({"rule": "R4", "what": "SelectItem::UnnamedExpr(Expr::CompoundIdentifier(idents)) is the shim SelectItemView::UnnamedExpr(idents)"})

    # ---- CTE sort columns
    then_it = X.if_blocks(POSTPROCESS, "fold_sql_transforms", "if !self.main_relation {", name="cte_sort", need_else=False,
                          after="impl PqMapper<RelationExpr, RelationExpr, (), ()> for SortingInference")[0]
    then_it.rewrite_re("R5", r"let select = result\.iter_mut\(\)\.find_map\(\|x\| x\.as_select_mut\(\)\)\.unwrap\(\);", "", count=1,
                       why="search of the Select transform in the pipeline: `select` is a parameter of the slice")
    then_it.rewrite_re("R5", r"\bselect\.contains\(&cid\)", "cid_vec_contains(select, &cid)", count=None, why="Vec<CId>::contains")
    then_it.rewrite_re("R5", r"let mut (\w+) = result\s*\.iter\(\)\s*\.filter_map\(\|x\| x\.as_sort\(\)\)\s*\.flatten\(\)\s*\.cloned\(\)\s*\.collect_vec\(\);", r"let mut \1 = emitted_sort_columns();", count=None,
                       why="iterator chain over the emitted transforms: the columns of the Sort transforms of this pipeline (external, unconstrained here; unit sort_infer states what must be selected)")
    then_it.rewrite_re("R5", r"\b(\w+)\.extend\(sorting\.iter\(\)\.cloned\(\)\);", r"extend_sort_columns(&mut \1, &sorting);", count=None, why="Vec::extend with the cloned elements")
    then_it.drop_logging()
    then_it.text = ("pub fn cte_sort_columns(main_relation: bool, select: &mut Vec<rq::CId>, sorting: Vec<ColumnSort<rq::CId>>)\n"
                    "    ensures\n"
                    "        // helper sort columns are added to CTE projections only, never to the main query's result\n"
                    "        main_relation ==> final(select)@ == old(select)@, // @SS3a\n"
                    "        // and nothing the projection already had is removed or reordered\n"
                    "        old(select)@.len() <= final(select)@.len() && final(select)@.subrange(0, old(select)@.len() as int) == old(select)@, // @SS3b\n"
                    "{\n    if !main_relation {\n" + then_it.text + "\n    }\n}\n")
    then_it.loop_contract(1, """
        invariant
            old(select)@.len() <= select@.len(),
            select@.subrange(0, old(select)@.len() as int) == old(select)@,
    """, fn_name="cte_sort_columns")
    then_it.rewrites.append({"rule": "slice", "what": "then-block of `if !self.main_relation` wrapped as fn cte_sort_columns(main_relation, select, sorting)"})

    cte_shim = ("#[verifier::external_body] pub fn emitted_sort_columns() -> Vec<ColumnSort<rq::CId>> { unimplemented!() }\n"
                "#[verifier::external_body] pub fn extend_sort_columns(v: &mut Vec<ColumnSort<rq::CId>>, w: &Vec<ColumnSort<rq::CId>>) { unimplemented!() }\n")
    return PRELUDE + model + tsi.text + "\n" + view + dd.text + "\n" + cte_shim + then_it.text + "\n} // verus!\nfn main() {}\n"
