"""Unit select_shape: names and membership of the projection.

Real code under contract:
  prqlc/prqlc/src/sql/gen_expr.rs        translate_select_item
  prqlc/prqlc/src/sql/gen_projection.rs  deduplicate_select_items: body of the `retain` closure (slice)
  prqlc/prqlc/src/sql/pq/postprocess.rs  SortingInference::fold_sql_transforms: slice `if !self.main_relation { .. }`
"""
import re

import common_rq
import common_std
from extract import ExtractionError, code_tokens, match_brace

GEN_EXPR = "prqlc/prqlc/src/sql/gen_expr.rs"
GEN_PROJ = "prqlc/prqlc/src/sql/gen_projection.rs"
POSTPROCESS = "prqlc/prqlc/src/sql/pq/postprocess.rs"

RLIMIT = 60
LABELS = ["SS2a", "SS2b", "SS2c", "DD1", "DD2", "DD3", "DD4", "SS3a", "SS3b"]
FUNCTIONS = ["translate_select_item", "dedup_keep", "cte_sort_columns"]

ASSUMED = [
    {"what": "opaque external types (OpaqueT, Opaque<T>, OpaqueOf<T>)", "keys": ["pub struct Opaque"]},
    {"what": "translate_cid is external (uninterpreted cid_expr); the inferred result-set name of an expression (last part of a compound identifier, "
             "never `*`) is the uninterpreted inferred_name(); translate_ident_part keeps the text (ident_quote unit)",
     "keys": ["cid_expr", "spec fn inferred_name", "fn translate_cid", "fn inferred_name_of", "fn translate_ident_part", "spec fn ast", "fn into_ast"]},
    {"what": "ctx.anchor.column_names is a map CId -> String (shim NameMap: get / insert as a map); NameGenerator::gen returns a name that no column "
             "carries yet (fresh_name, ids_names unit)", "keys": ["struct NameMap", "fn view", "fn get", "fn insert", "struct NameGen", "fn gen", "fn fresh_name", "spec fn taken"]},
    {"what": "Option<&String> != Option<&String> compares the character sequences (opt_name_ne); String::to_string / clone keep the characters",
     "keys": ["fn opt_name_ne", "fn clone_string", "fn opt_cloned"]},
    {"what": "sqlparser SelectItem / Ident are shims with the real variant and field names; HashSet<Ident> is the shim IdentSet keyed by (value, quote_style); "
             "`idents.iter().any(|ident| seen.insert(KEY))` is insert_any_* : inserts the keys in order until one is new",
     "keys": ["struct IdentSet", "fn view", "fn insert_one", "fn insert_path", "fn insert_any_part", "fn clone_ident", "fn clone_idents", "fn vec_of_one", "fn unknown_key_insert"]},
    {"what": "Vec<CId>::contains is membership (cid_vec_contains); the sort columns a CTE has to carry are gathered by external, here unconstrained functions "
             "(unit sort_infer SC1-3 is about which columns those are)", "keys": ["fn cid_vec_contains", "fn emitted_sort_columns", "fn extend_sort_columns"]},
    common_std.STR_PREDS_ASSUMPTION,
]
TRUSTED = [
    "oracle (C05): a column that has a name in PRQL carries exactly that name in the result set; a selected column is dropped only as an exact "
    "duplicate; helper sort columns are added to CTE projections only",
    "the slices drop: the computation of inferred_name, the iteration of `retain`, the search of the Select inside the CTE pipeline",
]

PRELUDE = r"""
#![allow(unused_imports, dead_code, unused_variables, unused_mut, unused_parens, non_snake_case)]
use vstd::prelude::*;
use std::result::Result::*;
verus! {
""" + common_rq.OPAQUE + common_std.STR_PREDS + r"""
pub mod sql_ast {
    use super::*;
    pub type Expr = OpaqueT;
    pub struct Ident { pub value: String, pub quote_style: Option<char> }
}
pub enum SelectItem {
    UnnamedExpr(sql_ast::Expr),
    ExprWithAlias { expr: sql_ast::Expr, alias: sql_ast::Ident },
    QualifiedWildcard(OpaqueT, OpaqueT),
    Wildcard(OpaqueT),
}

pub uninterp spec fn cid_expr(cid: rq::CId) -> sql_ast::Expr;
pub uninterp spec fn inferred_name(e: sql_ast::Expr) -> Option<Seq<char>>;

#[verifier::external_body]
pub struct NameMap { _p: u8 }
impl NameMap {
    pub uninterp spec fn view(&self) -> Map<rq::CId, Seq<char>>;
    #[verifier::external_body]
    pub fn get(&self, k: &rq::CId) -> (r: Option<&String>)
        ensures match r { Some(s) => self.view().contains_key(*k) && self.view()[*k] == s@, None => !self.view().contains_key(*k) },
    { unimplemented!() }
    #[verifier::external_body]
    pub fn insert(&mut self, k: rq::CId, v: String) ensures final(self).view() == old(self).view().insert(k, v@), { unimplemented!() }
}
#[verifier::external_body]
pub struct NameGen { _p: u8 }
pub uninterp spec fn taken(s: Seq<char>) -> bool;
impl NameGen {
    #[verifier::external_body]
    pub fn gen(&mut self) -> (r: String) ensures !taken(r@), { unimplemented!() }
}
pub struct AnchorContext { pub column_names: NameMap, pub col_name: NameGen }
pub struct Context { pub anchor: AnchorContext }

#[verifier::external_body]
pub fn translate_cid(cid: rq::CId, ctx: &mut Context) -> (r: Result<OpaqueOf<sql_ast::Expr>, Error>)
    ensures final(ctx).anchor == old(ctx).anchor,
{ unimplemented!() }
impl OpaqueOf<sql_ast::Expr> {
    pub uninterp spec fn ast(&self) -> sql_ast::Expr;
    #[verifier::external_body]
    pub fn into_ast(self) -> (r: sql_ast::Expr) ensures r == self.ast(), { unimplemented!() }
}
#[verifier::external_body]
pub fn inferred_name_of(e: &sql_ast::Expr) -> (r: Option<&String>)
    ensures match r { Some(s) => inferred_name(*e) == Some(s@), None => inferred_name(*e) is None },
{ unimplemented!() }
#[verifier::external_body]
pub fn opt_name_ne(a: Option<&String>, b: Option<&String>) -> (r: bool)
    ensures r == !((a is None && b is None) || (a is Some && b is Some && a->0@ == b->0@)),
{ unimplemented!() }
#[verifier::external_body]
pub fn opt_cloned(a: Option<&String>) -> (r: Option<String>)
    ensures match a { Some(s) => r is Some && r->0@ == s@, None => r is None },
{ unimplemented!() }
#[verifier::external_body]
pub fn clone_string(s: &String) -> (r: String) ensures r@ == s@, { unimplemented!() }
#[verifier::external_body]
pub fn translate_ident_part(ident: String, ctx: &Context) -> (r: sql_ast::Ident) ensures r.value@ == ident@, { unimplemented!() }

// ---- HashSet shim: the set of NAMES seen so far; a name is the sequence of (text, quoting) of its parts (one part for a bare identifier or an alias)
pub type PartKey = (Seq<char>, Option<char>);
pub open spec fn part_key(i: sql_ast::Ident) -> PartKey { (i.value@, i.quote_style) }
pub open spec fn name_key(v: Seq<sql_ast::Ident>) -> Seq<PartKey> { v.map_values(|i: sql_ast::Ident| part_key(i)) }
#[verifier::external_body]
pub struct IdentSet { _p: u8 }
impl IdentSet {
    pub uninterp spec fn view(&self) -> Set<Seq<PartKey>>;
}
#[verifier::external_body]
pub fn clone_ident(i: &sql_ast::Ident) -> (r: sql_ast::Ident) ensures r == *i, { unimplemented!() }
#[verifier::external_body]
pub fn clone_idents(v: &Vec<sql_ast::Ident>) -> (r: Vec<sql_ast::Ident>) ensures r@ == v@, { unimplemented!() }
// HashSet<Ident>::insert: a one-part name
#[verifier::external_body]
pub fn insert_one(seen: &mut IdentSet, i: sql_ast::Ident) -> (r: bool)
    ensures r == !old(seen).view().contains(name_key(seq![i])), final(seen).view() == old(seen).view().insert(name_key(seq![i])),
{ unimplemented!() }
// HashSet<Vec<Ident>>::insert: the whole name
#[verifier::external_body]
pub fn insert_path(seen: &mut IdentSet, v: Vec<sql_ast::Ident>) -> (r: bool)
    ensures r == !old(seen).view().contains(name_key(v@)), final(seen).view() == old(seen).view().insert(name_key(v@)),
{ unimplemented!() }
// `idents.iter().any(|ident| seen.insert(ident.clone()))`: inserts the parts one by one, as one-part names, until one is new
#[verifier::external_body]
pub fn insert_any_part(seen: &mut IdentSet, idents: &Vec<sql_ast::Ident>) -> (r: bool)
    ensures
        r == (exists|i: int| 0 <= i < idents@.len() && !old(seen).view().contains(name_key(seq![#[trigger] idents@[i]]))),
        forall|k: Seq<PartKey>| old(seen).view().contains(k) ==> final(seen).view().contains(k),
{ unimplemented!() }
#[verifier::external_body]
pub fn vec_of_one(i: sql_ast::Ident) -> (r: Vec<sql_ast::Ident>) ensures r@ == seq![i], { unimplemented!() }
// a decision taken with a key function the proof knows nothing about
#[verifier::external_body]
pub fn unknown_key_insert(seen: &mut IdentSet) -> (r: bool) { unimplemented!() }

#[verifier::external_body]
pub fn cid_vec_contains(v: &Vec<rq::CId>, c: &rq::CId) -> (r: bool) ensures r == v@.contains(*c), { unimplemented!() }
"""


def build(X):
    model = common_rq.rq_module(X)

    tsi = X.fn(GEN_EXPR, "translate_select_item").pub_all()
    tsi.rewrite("R6", "Result<SelectItem>", "Result<SelectItem, Error>")
    # the computation of inferred_name (iterator/closure chain over sqlparser types) is replaced by its contract
    m = re.search(r"let inferred_name = match &expr \{.*?\n    \.filter\(\|n\| \*n != \"\*\"\);", tsi.text, re.S)
    if not m:
        raise ExtractionError("translate_select_item: `let inferred_name = ..` statement not recognised")
    tsi.rewrite("R5", m.group(0), "let inferred_name = inferred_name_of(&expr);",
                why="last part of a compound identifier, never `*` (closure chain over sqlparser types): uninterpreted inferred_name()")
    tsi.rewrite_re("R5", r"\binferred_name != expected\b", "opt_name_ne(inferred_name, expected)", count=None,
                   why="Option<&String> comparison")
    tsi.rewrite("R5", "expected.cloned()", "opt_cloned(expected)", count=None, why="Option<&String>::cloned")
    tsi.rewrite("R5", "ident.to_string()", "clone_string(&ident)", count=None, why="String::to_string")
    tsi.rewrite_re("R8", r"let ident = (.*?)\.unwrap_or_else\(\|\| \{(.*?)\}\);",
                   lambda mm: "let ident = match %s { Some(v) => v, None => {%s} };" % (mm.group(1), mm.group(2)),
                   count=1, why="`opt.unwrap_or_else(|| BODY)` desugared to `match opt { Some(v) => v, None => BODY }` (Verus has no closures that "
                                "capture a mutable reference); same evaluation order and result")
    tsi.shim_str_predicates()
    tsi.ret_name("r")
    tsi.contract("""
        ensures
            // C05: a column whose expected name differs (exactly) from the name SQL would infer gets an alias with the expected name
            (r is Ok && r->Ok_0 is UnnamedExpr) ==> (
                (old(ctx).anchor.column_names.view().contains_key(cid) <==> inferred_name(r->Ok_0->UnnamedExpr_0) is Some)
                && (old(ctx).anchor.column_names.view().contains_key(cid)
                    ==> inferred_name(r->Ok_0->UnnamedExpr_0) == Some(old(ctx).anchor.column_names.view()[cid]))), // @SS2a
            (r is Ok && r->Ok_0 is ExprWithAlias && old(ctx).anchor.column_names.view().contains_key(cid))
                ==> r->Ok_0->ExprWithAlias_alias.value@ == old(ctx).anchor.column_names.view()[cid], // @SS2b
            // an unnamed column gets a generated alias that no column carries, never the inferred name of another column
            (r is Ok && r->Ok_0 is ExprWithAlias && !old(ctx).anchor.column_names.view().contains_key(cid))
                ==> !taken(r->Ok_0->ExprWithAlias_alias.value@), // @SS2c
    """)

    # ---- deduplicate_select_items: the closure body decides per item
    dd = X.fn(GEN_PROJ, "deduplicate_select_items")
    mm = re.search(r"items\.retain\(\|select_item\| (match select_item \{.*\})\);", dd.text, re.S)
    if not mm:
        raise ExtractionError("deduplicate_select_items: retain closure not recognised")
    body = mm.group(1)
    dd.rewrites.append({"rule": "slice", "what": "body of the closure passed to items.retain() wrapped as fn dedup_keep(select_item, seen) -> keep; "
                        "the iteration of `retain` itself is dropped"})

    # the set operations, whatever the key is: the parts one by one (HashSet<Ident>) or the whole name (HashSet<Vec<Ident>>)
    rules = [(r"idents\.iter\(\)\.any\(\|ident\| seen\.insert\(ident\.clone\(\)\)\)", "insert_any_part(seen, idents)"),
             (r"seen\.insert\(idents\.clone\(\)\)", "insert_path(seen, clone_idents(idents))"),
             (r"seen\.insert\(vec!\[alias\.clone\(\)\]\)", "insert_path(seen, vec_of_one(clone_ident(alias)))"),
             (r"seen\.insert\(alias\.clone\(\)\)", "insert_one(seen, clone_ident(alias))")]
    n_rw = 0
    for pat, rep in rules:
        body, k = re.subn(pat, rep, body)
        n_rw += k
    # an arm that decides with anything else (another key function, a helper closure defined outside the slice): a key the proof knows nothing about
    def _arm_value(text, arm_pat):
        ma = re.search(arm_pat + r"\s*=>\s*", text)
        if not ma:
            raise ExtractionError("deduplicate_select_items: arm `%s` not recognised" % arm_pat)
        rest = text[ma.end():]
        if rest.lstrip().startswith("{"):
            toks = code_tokens(rest)
            e = toks[match_brace(rest, toks, 0)][2]
        else:
            depth, e = 0, None
            for k, ch in enumerate(rest):
                if ch in "([{":
                    depth += 1
                elif ch in ")]}":
                    depth -= 1
                    if depth < 0:
                        e = k
                        break
                elif ch == "," and depth == 0:
                    e = k
                    break
        return ma.end(), ma.end() + e
    known = r"^\s*\{?\s*(//[^\n]*\n\s*)*(insert_any_part|insert_path|insert_one)\((?:[^()]|\((?:[^()]|\([^()]*\))*\))*\)\s*\}?\s*$"
    for arm_pat in (r"SelectItem::UnnamedExpr\(sql_ast::Expr::CompoundIdentifier\(idents\)\)", r"SelectItem::ExprWithAlias \{ alias, \.\. \}"):
        a0, a1 = _arm_value(body, arm_pat)
        if not re.match(known, body[a0:a1], re.S):
            dd.rewrites.append({"rule": "R5", "what": "arm `%s`: its value `%s` is not one of the known set operations -> unknown_key_insert(seen) (any answer, any change of the set)" % (
                arm_pat.replace("\\", ""), " ".join(body[a0:a1].split())[:120])})
            body = body[:a0] + "{ unknown_key_insert(seen) }" + body[a1:]
    dd.rewrites.append({"rule": "R5", "what": "%d HashSet operation(s) on `seen` -> insert_any_part / insert_path / insert_one (shims over the set of names seen)" % n_rw})
    body = body.replace("sql_ast::Expr::CompoundIdentifier(idents)", "idents")
    dd.text = ("pub fn dedup_keep(select_item: &SelectItemView, seen: &mut IdentSet) -> (keep: bool)\n"
               "    ensures\n"
               "        // C05: a selected column is dropped only when the SAME (qualified) name - same parts, same quoting - was selected before: `b.a` is not a duplicate\n"
               "        // of `a.x` and `b.y` just because `b` and `a` have been seen\n"
               "        (!keep && select_item is UnnamedExpr) ==> old(seen).view().contains(name_key(select_item->UnnamedExpr_0@)), // @DD1\n"
               "        (!keep && select_item is ExprWithAlias) ==> old(seen).view().contains(name_key(seq![select_item->ExprWithAlias_alias])), // @DD2\n"
               "        (select_item is Other) ==> keep, // @DD3\n"
               "        // a name that is kept is remembered, so that its repetition is dropped\n"
               "        (keep && select_item is UnnamedExpr) ==> final(seen).view().contains(name_key(select_item->UnnamedExpr_0@)), // @DD4\n"
               "{\n    " + body.replace("SelectItem::UnnamedExpr(idents)", "SelectItemView::UnnamedExpr(idents)")
               .replace("SelectItem::ExprWithAlias {", "SelectItemView::ExprWithAlias {") + "\n}\n")
    view = ("// what the closure looks at: a compound identifier's parts, or an alias; everything else is `Other`\n"
            "pub enum SelectItemView { UnnamedExpr(Vec<sql_ast::Ident>), ExprWithAlias { expr: sql_ast::Expr, alias: sql_ast::Ident }, Other }\n")
    dd.rewrites.append({"rule": "R4", "what": "SelectItem::UnnamedExpr(Expr::CompoundIdentifier(idents)) is the shim SelectItemView::UnnamedExpr(idents)"})

    # ---- CTE sort columns
    then_it = X.if_blocks(POSTPROCESS, "fold_sql_transforms", "if !self.main_relation {", name="cte_sort", need_else=False,
                          after="impl PqMapper<RelationExpr, RelationExpr, (), ()> for SortingInference")[0]
    then_it.rewrite_re("R5", r"let select = result\.iter_mut\(\)\.find_map\(\|x\| x\.as_select_mut\(\)\)\.unwrap\(\);", "", count=1,
                       why="search of the Select transform in the pipeline: `select` is a parameter of the slice")
    then_it.rewrite_re("R5", r"\bselect\.contains\(&cid\)", "cid_vec_contains(select, &cid)", count=None, why="Vec<CId>::contains")
    then_it.rewrite_re("R5", r"let mut (\w+) = result\s*\.iter\(\)\s*\.filter_map\(\|x\| x\.as_sort\(\)\)\s*\.flatten\(\)\s*\.cloned\(\)\s*\.collect_vec\(\);", r"let mut \1 = emitted_sort_columns();", count=None,
                       why="iterator chain over the emitted transforms: the columns of the Sort transforms of this pipeline (external, unconstrained here; unit sort_infer states what must be selected)")
    then_it.rewrite_re("R5", r"\b(\w+)\.extend\(sorting\.iter\(\)\.cloned\(\)\);", r"extend_sort_columns(&mut \1, &sorting);", count=None, why="Vec::extend with the cloned elements")
    then_it.drop_logging()
    then_it.text = ("pub fn cte_sort_columns(main_relation: bool, select: &mut Vec<rq::CId>, sorting: Vec<ColumnSort<rq::CId>>)\n"
                    "    ensures\n"
                    "        // helper sort columns are added to CTE projections only, never to the main query's result\n"
                    "        main_relation ==> final(select)@ == old(select)@, // @SS3a\n"
                    "        // and nothing the projection already had is removed or reordered\n"
                    "        old(select)@.len() <= final(select)@.len() && final(select)@.subrange(0, old(select)@.len() as int) == old(select)@, // @SS3b\n"
                    "{\n    if !main_relation {\n" + then_it.text + "\n    }\n}\n")
    then_it.loop_contract(1, """
        invariant
            old(select)@.len() <= select@.len(),
            select@.subrange(0, old(select)@.len() as int) == old(select)@,
    """, fn_name="cte_sort_columns")
    then_it.rewrites.append({"rule": "slice", "what": "then-block of `if !self.main_relation` wrapped as fn cte_sort_columns(main_relation, select, sorting)"})

    cte_shim = ("#[verifier::external_body] pub fn emitted_sort_columns() -> Vec<ColumnSort<rq::CId>> { unimplemented!() }\n"
                "#[verifier::external_body] pub fn extend_sort_columns(v: &mut Vec<ColumnSort<rq::CId>>, w: &Vec<ColumnSort<rq::CId>>) { unimplemented!() }\n")
    return PRELUDE + model + tsi.text + "\n" + view + dd.text + "\n" + cte_shim + then_it.text + "\n} // verus!\nfn main() {}\n"


# ----------------------------------------------------------------------------- replay on the real compiler
SETUP = ("create table a(id integer, x integer, t integer); insert into a values (1, 10, 7), (2, 20, 8);"
         "create table b(id integer, y integer, a integer, t integer); insert into b values (1, 100, 5, 6), (2, 200, 9, 4);")
# the number and the values of the selected columns: nothing that was asked for is dropped, a repeated name is selected once
CASES = [
    ("from a\njoin b (==id)\nselect {a.x, b.y, b.a}\nsort x\n", [(10, 100, 5), (20, 200, 9)]),
    ("from a\njoin b (==id)\nselect {a.x, b.y, t = 1}\nsort x\n", [(10, 100, 1), (20, 200, 1)]),
    ("from a\njoin b (==id)\nselect {a.id, a.x, a.id}\nsort x\n", [(1, 10), (2, 20)]),
    ("from a\njoin b (==id)\nselect {a.t, b.t}\nsort {b.t}\n", [(8, 4), (7, 6)]),
    # names that differ by letter case only are two columns (three values per row)
    ("from a\nselect {id, x, X = t}\nsort id\n", [(1, 10, 7), (2, 20, 8)]),
    ("from a\njoin b (==id)\nselect {a.x, a.id, ID = b.y}\nsort x\n", [(10, 1, 100), (20, 2, 200)]),
]


# a column that is re-defined after a join, inline and with the prefix named by let (typed tables, so that the CTE lists its columns): the overwritten column
# leaves the CTE under a generated alias, not under the name of its successor
TYPED = "module default_db {\n  let a <[{id = int, x = int, t = int}]>\n  let b <[{id = int, y = int, a = int, t = int}]>\n}\n"
ALIAS_CASES = [
    (TYPED + "from a\njoin b (a.id == b.id)\nderive {x = a.x * 2}\nselect {x, y}\nsort {y}\n", [(20, 100), (40, 200)]),
    (TYPED + "let p = (from a | join b (a.id == b.id) | derive {x = a.x * 2})\nfrom p\nselect {x, y}\nsort {y}\n", [(20, 100), (40, 200)]),
    (TYPED + "let p = (from a | join b (a.id == b.id) | derive {t = b.t + 1})\nfrom p\nselect {t, y}\nsort {y}\n", [(7, 100), (5, 200)]),
]


def _try(src, exp):
    import replaylib
    ok, sql = replaylib.compile_prql(src, "sql.sqlite")
    if not ok:
        return {"input": src, "expected": [list(r) for r in exp], "observed": sql[:300], "failing": True, "replay_kind": "rows"}
    ok2, rows = replaylib.sqlite_rows(SETUP, sql)
    rows = [tuple(r) for r in rows] if ok2 else rows
    return {"input": src, "expected": [list(r) for r in exp], "observed": [list(r) for r in rows] if ok2 else "sqlite error: %s\n%s" % (rows, sql[:300]), "failing": (not ok2) or rows != exp,
            "replay_kind": "rows", "sql": sql}


# the labels of the result columns (C09: a column renamed only by letter case carries the new spelling, in the result and in the CTE an outer SELECT reads by that name)
LABEL_CASES = [
    ("from a\nselect {Id = id, X = x, t}\n", ["Id", "X", "t"]),
    ("from a\nselect {Id = id, X = x, t}\ntake 2\nfilter t > 0\nselect {Id, X}\n", ["Id", "X"]),
]


def _try_labels(src, labels):
    import sqlite3
    import replaylib
    ok, sql = replaylib.compile_prql(src, "sql.sqlite")
    if not ok:
        return {"input": src, "expected": labels, "observed": sql[:300], "failing": True, "replay_kind": "labels"}
    con = sqlite3.connect(":memory:")
    con.executescript(SETUP)
    try:
        cur = con.execute(sql)
        got = [d[0] for d in cur.description]
    except Exception as e:
        got = "sqlite error: %r\n%s" % (e, sql[:300])
    return {"input": src, "expected": labels, "observed": got, "failing": got != labels, "replay_kind": "labels", "sql": sql}


def replay(failure):
    lab = failure.get("obligation", "").split(".", 1)[-1]
    if lab.startswith("SS2"):
        for src, labels in LABEL_CASES:
            r = _try_labels(src, labels)
            if r["failing"]:
                return r
    for src, exp in (ALIAS_CASES + CASES if lab.startswith("SS2") else CASES + ALIAS_CASES):
        r = _try(src, exp)
        if r["failing"]:
            return r
    return {"failing": False}


def rerun(doc):
    if doc.get("replay_kind") == "labels":
        return _try_labels(doc["input"], doc["expected"])
    return _try(doc["input"], [tuple(r) for r in doc["expected"]])


SWEEP_DOC = "joins whose selected columns are named like a relation alias, or repeat a name: compiled by the real prqlc and executed on SQLite - every requested column arrives, once"


def sweep():
    out = []
    for src, exp in CASES:
        r = _try(src, exp)
        r["obligation"] = "select_shape.DD1"
        out.append(r)
    for src, exp in ALIAS_CASES:
        r = _try(src, exp)
        r["obligation"] = "select_shape.SS2a"
        out.append(r)
    for src, labels in LABEL_CASES:
        r = _try_labels(src, labels)
        r["obligation"] = "select_shape.SS2a"
        out.append(r)
    return out
