"""Unit array_item_type: the item type of an array (the row type of a relation literal) is the type of its FIRST typed item.

Real code under contract (prqlc/prqlc/src/semantic/resolver/types.rs):
  Resolver::infer_type: the arm `ExprKind::Array(items) => { .. }` (whole arm)
"""
import re

import common_rq
import common_std
from extract import ExtractionError

TYPES_RS = "prqlc/prqlc/src/semantic/resolver/types.rs"

LABELS = ["AT1", "AT1i", "AT2", "AT2i"]
FUNCTIONS = ["array_arm"]
RLIMIT = 60

ASSUMED = [
    {"what": "opaque external types", "keys": ["pub struct Opaque"]},
    common_std.VERIF_REF_ITER_ASSUMPTION,
    {"what": "the recursive call Resolver::infer_type(item) is the uninterpreted inferred(item) (the function's own result for a sub-expression); `for item in items` over a `&Vec` is "
             "`for item in items.iter()`; `v.into_iter().next()` is the first element of the vector, if any; TyKind is the skeleton {Array(Option<Box<Ty>>), Other}; Ty and Expr are opaque",
     "keys": ["fn infer_type_rec", "spec fn inferred", "fn vec_first", "enum TyKind", "struct Ty", "struct Expr"]},
]
TRUSTED = [
    "oracle (C05): the columns of `from [{..}, {..}]` are the fields of the array's item type, and lowering reads every row by the FIRST row's field list "
    "(unit literal_rows LR1: the values of a row are matched by position against those names): the item type must be the first row's type, or the names and the values part company",
]

PRELUDE = r"""
#![allow(unused_imports, dead_code, unused_variables, unused_mut, unused_parens, non_snake_case)]
use vstd::prelude::*;
use std::result::Result::*;
verus! {
""" + common_rq.OPAQUE + common_std.VERIF_REF_ITER + r"""
#[verifier::external_body] pub struct Expr { _p: u8 }
#[verifier::external_body] pub struct Ty { _p: u8 }
pub enum TyKind { Array(Option<Box<Ty>>), Other(OpaqueT) }
pub uninterp spec fn inferred(e: Expr) -> Result<Option<Ty>, Error>;
#[verifier::external_body] pub fn infer_type_rec(e: &Expr) -> (r: Result<Option<Ty>, Error>) ensures r == inferred(*e), { unimplemented!() }
#[verifier::external_body] pub fn vec_first<T>(v: Vec<T>) -> (r: Option<T>) ensures r == (if v@.len() > 0 { Some(v@[0]) } else { None::<T> }), { unimplemented!() }
// the types of the typed items among the first n
pub open spec fn typed_upto(items: Seq<Expr>, n: int) -> Seq<Ty> decreases n {
    if n <= 0 { Seq::empty() } else {
        match inferred(items[n - 1]) { Ok(Some(t)) => typed_upto(items, n - 1).push(t), _ => typed_upto(items, n - 1) }
    }
}
"""


def build(X):
    arm = X.arm_body(TYPES_RS, "infer_type", "ExprKind::Array(items) =>", name="array_arm")
    arm.rewrite_re("R1", r"//[^\n]*\n", "\n", count=None, why="comments")
    arm.rewrite_re("R5", r"\bResolver::infer_type\(", "infer_type_rec(", count=None, why="the recursive call, cut at the function's own result")
    arm.rewrite_re("R11", r"\bfor (\w+) in items \{", r"for \1 in items.iter() {", count=1, why="IntoIterator for &Vec<T> is iter()")
    arm.rewrite_re("R8", r"\b(\w+)\.into_iter\(\)\.next\(\)\.map\(Box::new\)", r"(match vec_first(\1) { Some(verif_x) => Some(Box::new(verif_x)), None => None })", count=None,
                   why="Vec::into_iter().next() is the first element; Option::map(Box::new) by its std definition")
    arm.text = arm.text.replace("let mut item_tys = Vec::with_capacity(items.len());", "let mut item_tys: Vec<Ty> = Vec::with_capacity(items.len());", 1)
    arm.text = ("pub fn array_arm(items: &Vec<Expr>) -> (r: Result<TyKind, Error>)\n"
                "    ensures\n"
                "        // C05: the item type is the type of the first item that has one\n"
                "        r is Ok ==> r->Ok_0 == TyKind::Array(if typed_upto(items@, items@.len() as int).len() > 0 { Some(Box::new(typed_upto(items@, items@.len() as int)[0])) } else { None }), // @AT1\n"
                "        // an item whose type cannot be inferred without an error is an error of the array\n"
                "        r is Ok ==> forall|j: int| 0 <= j < items@.len() ==> (#[trigger] inferred(items@[j])) is Ok, // @AT2\n"
                "{\n    Ok({\n" + arm.text + "\n    })\n}\n")
    it = arm.desugar_for(1)
    arm.loop_contract(1, """
        invariant
            %(it)s.all() == items@, 0 <= %(it)s.pos() <= %(it)s.all().len(),
            item_tys@ == typed_upto(items@, %(it)s.pos()), // @AT1i
            forall|j: int| 0 <= j < %(it)s.pos() ==> (#[trigger] inferred(items@[j])) is Ok, // @AT2i
        ensures %(it)s.pos() >= %(it)s.all().len(),
        decreases %(it)s.all().len() - %(it)s.pos(),
    """ % {"it": it})
    return PRELUDE + arm.text + "\n} // verus!\nfn main() {}\n"
