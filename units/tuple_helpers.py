"""Unit tuple_helpers: the std helpers that take tuples (tuple_every, tuple_map, tuple_zip, _eq) answer a call with something else with an error, not a panic.

Real code under contract (prqlc/prqlc/src/semantic/resolver/transforms.rs):
  into_tuple_items (whole), the arms `"tuple_every"`, `"tuple_map"`, `"tuple_zip"`, `"_eq"` of resolve_special_func: the statements that unpack the arguments into their
  items (slices: up to the statement that starts building the result); prqlc/src/ir/pl/utils.rs maybe_binop (whole)
"""
import re

import common_rq
from extract import ExtractionError

TRANSFORMS = "prqlc/prqlc/src/semantic/resolver/transforms.rs"
PL_UTILS = "prqlc/prqlc/src/ir/pl/utils.rs"

LABELS = ["TI1", "TE1", "TM1", "TZ1", "EQ1", "EQ2", "MB1"]
FUNCTIONS = ["into_tuple_items", "tuple_every_args", "tuple_map_args", "tuple_zip_args", "eq_args", "maybe_binop"]
OPTIONAL_FUNCTIONS = ["into_tuple_items"]
RLIMIT = 60

ASSUMED = [
    {"what": "opaque external types", "keys": ["pub struct Opaque"]},
    {"what": "pl::Expr / ExprKind are skeletons {kind: Tuple(Vec<Expr>) | Other, span}; enum_as_inner's into_tuple() returns the payload of that variant, else the kind itself; "
             "`unpack::<N>(func.args)` is unpack_1 / unpack_2 with the panic condition of `try_into().expect(..)` as precondition (exactly N arguments: unit std_arity proves "
             "it for every declaration of std.prql); Vec<Expr> -> [Expr; 2] (`try_into`) succeeds exactly for two items; new_binop and error construction are opaque; Option::or has its std meaning",
     "keys": ["fn into_tuple", "fn unpack_1", "fn unpack_2", "fn vec_into_pair", "fn opaque_error", "fn new_binop", "struct Span", "fn not_a_tuple", "Option::<T>::or"]},
]
TRUSTED = [
    "oracle (C12): tuple_every / tuple_map / tuple_zip / _eq are declared in std.prql and callable by a program (`filter (tuple_every 5)`): whatever the arguments are, the "
    "resolver answers with an expression or an error.  The arity is fixed by the declaration (precondition of unpack, discharged by std_arity UA rows); the KIND of the "
    "arguments is not: a non-tuple must be rejected (TE1, TM1, TZ1, EQ1), a tuple of the wrong width too (EQ2)",
    "the slices drop how the result is built from the items",
]

PRELUDE = r"""
#![allow(unused_imports, dead_code, unused_variables, unused_mut, unused_parens, non_snake_case)]
use vstd::prelude::*;
verus! {
""" + common_rq.OPAQUE.replace("pub struct SpanMarker; pub type Span = Opaque<SpanMarker>;", "#[derive(Clone, Copy)] #[verifier::external_body] pub struct Span { _p: u8 }") + r"""
pub enum ExprKind { Tuple(Vec<Expr>), Other(OpaqueT) }
pub struct Expr { pub kind: ExprKind, pub span: Option<Span> }
impl ExprKind {
    #[verifier::external_body]
    pub fn into_tuple(self) -> (r: Result<Vec<Expr>, ExprKind>) ensures match r { Ok(v) => self == ExprKind::Tuple(v), Err(k) => !(self is Tuple) && k == self }, { unimplemented!() }
}
pub struct Func { pub args: Vec<Expr> }
#[verifier::external_body] pub fn unpack_1(args: Vec<Expr>) -> (r: Expr) requires args@.len() == 1, ensures r == args@[0], { unimplemented!() }
#[verifier::external_body] pub fn unpack_2(args: Vec<Expr>) -> (r: (Expr, Expr)) requires args@.len() == 2, ensures r.0 == args@[0], r.1 == args@[1], { unimplemented!() }
#[verifier::external_body]
pub fn vec_into_pair(v: Vec<Expr>) -> (r: Result<(Expr, Expr), Vec<Expr>>) ensures match r { Ok(p) => v@.len() == 2 && p.0 == v@[0] && p.1 == v@[1], Err(_) => v@.len() != 2 }, { unimplemented!() }
#[verifier::external_body] pub fn opaque_error() -> Error { unimplemented!() }
#[verifier::external_body] pub fn not_a_tuple(found: ExprKind, span: Option<Span>, who: &str) -> Error { unimplemented!() }
#[verifier::external_body] pub fn new_binop(left: Expr, op_name: &[&str], right: Expr) -> Expr { unimplemented!() }
pub assume_specification<T>[ Option::<T>::or ](a: Option<T>, b: Option<T>) -> (r: Option<T>)
    ensures r == (if a is Some { a } else { b }),
;
"""


def _arm(X, start, name, end_pat):
    a = X.arm_body(TRANSFORMS, "resolve_special_func", start, name=name)
    a.rewrite_re("R1", r"//[^\n]*\n", "\n", count=None, why="comments")
    m = re.search(end_pat, a.text)
    if not m:
        raise ExtractionError("resolve_special_func: arm %s: the statement `%s` that starts building the result was not found" % (start, end_pat))
    a.text = a.text[:m.start()].strip()
    a.rewrites.append({"rule": "slice", "what": "arm %s of resolve_special_func up to the statement that starts building the result, wrapped as fn %s(func) -> Ok(())" % (start, name)})
    a.rewrite_re("R5", r"let \[(\w+)\] = unpack::<1>\(func\.args\);", r"let \1 = unpack_1(func.args);", count=None, why="unpack::<1> + array pattern")
    a.rewrite_re("R5", r"let \[(\w+), (\w+)\] = unpack::<2>\(func\.args\);", r"let (\1, \2) = unpack_2(func.args);", count=None, why="unpack::<2> + array pattern")
    a.rewrite_re("R5", r"Error::new_simple\(\s*\"[^\"]*\"\s*\)\s*\.with_span\(\w+\)", "opaque_error()", count=None, why="error construction")
    a.rewrite_re("R8", r"let \[(\w+), (\w+)\]: \[Expr; 2\] = (\w+)\.try_into\(\)\.map_err\(\|_\| \{\s*opaque_error\(\)\s*\}\)\?;",
                 r"let (\1, \2) = (match vec_into_pair(\3) { Ok(verif_p) => verif_p, Err(_) => { return Err(opaque_error()); } });", count=None, why="Vec -> [Expr; 2] + map_err + `?`")
    a.rewrite_re("R5", r"let \[(\w+), (\w+)\]: \[Expr; 2\] = (\w+)\.try_into\(\)\.unwrap\(\);", r"let (\1, \2) = vec_into_pair(\3).unwrap();", count=None, why="Vec -> [Expr; 2]")
    a.rewrite_re("R8", r"\((\w+)\.kind\.into_tuple\(\)\)\s*\.map_err\(\|kind\| not_a_tuple\(kind, (\w+), (\"[^\"]*\")\)\)\?",
                 r"(match \1.kind.into_tuple() { Ok(verif_v) => verif_v, Err(kind) => { return Err(not_a_tuple(kind, \2, \3)); } })", count=None, why="Result::map_err + `?`")
    return a


def build(X):
    out = []
    try:
        ti = X.fn(TRANSFORMS, "into_tuple_items").pub_all()
    except ExtractionError:
        ti = None
    if ti is not None:
        ti.rewrite_re("R6", r"\) -> Result<Vec<Expr>> \{", ") -> Result<Vec<Expr>, Error> {", count=1, why="Result alias")
        ti.rewrite_re("R8", r"\(expr\.kind\.into_tuple\(\)\)\.map_err\(\|kind\| not_a_tuple\(kind, span, who\)\)", "(match expr.kind.into_tuple() { Ok(verif_v) => Ok(verif_v), Err(kind) => Err(not_a_tuple(kind, span, who)) })", count=1,
                      why="Result::map_err desugared to the match it is")
        ti.ret_name("r")
        ti.contract("""
        ensures
            // the items of a tuple; anything else is an error
            match r { Ok(v) => expr.kind == ExprKind::Tuple(v), Err(_) => !(expr.kind is Tuple) }, // @TI1
        """)
        out.append(ti.text)
    else:
        out.append("// the helper that turns an argument into its items does not exist in transforms.rs // @TI1")
    te = _arm(X, '"tuple_every" =>', "tuple_every_args", r"let mut res = None;")
    te.text = ("pub fn tuple_every_args(func: Func) -> (r: Result<(), Error>)\n    requires func.args@.len() == 1,\n"
               "    ensures r is Ok <==> func.args@[0].kind is Tuple, // @TE1\n{\n    " + te.text + "\n    Ok(())\n}\n")
    tm = _arm(X, '"tuple_map" =>', "tuple_map_args", r"let list_items = list_items\b")
    tm.text = ("pub fn tuple_map_args(func: Func) -> (r: Result<(), Error>)\n    requires func.args@.len() == 2,\n"
               "    ensures r is Ok <==> func.args@[1].kind is Tuple, // @TM1\n{\n    " + tm.text + "\n    Ok(())\n}\n")
    tz = _arm(X, '"tuple_zip" =>', "tuple_zip_args", r"let mut res = Vec::new\(\);")
    tz.text = ("pub fn tuple_zip_args(func: Func) -> (r: Result<(), Error>)\n    requires func.args@.len() == 2,\n"
               "    ensures r is Ok <==> (func.args@[0].kind is Tuple && func.args@[1].kind is Tuple), // @TZ1\n{\n    " + tz.text + "\n    Ok(())\n}\n")
    eq = _arm(X, '"_eq" =>', "eq_args", r"let res = maybe_binop\(")
    eq.text = ("pub fn eq_args(func: Func) -> (r: Result<(), Error>)\n    requires func.args@.len() == 1,\n"
               "    ensures\n        !(func.args@[0].kind is Tuple) ==> r is Err, // @EQ1\n"
               "        r is Ok <==> (func.args@[0].kind is Tuple && func.args@[0].kind->Tuple_0@.len() == 2), // @EQ2\n{\n    " + eq.text + "\n    Ok(())\n}\n")
    mb = X.fn(PL_UTILS, "maybe_binop").pub_all()
    mb.ret_name("r")
    mb.contract("""
        ensures
            // with both operands there is a result (what `_eq` unwraps)
            (left is Some && right is Some) ==> r is Some, // @MB1
            (left is None && right is None) ==> r is None,
    """)
    return PRELUDE + "\n".join(out) + "\n" + te.text + "\n" + tm.text + "\n" + tz.text + "\n" + eq.text + "\n" + mb.text + "\n} // verus!\nimpl core::fmt::Debug for Expr { fn fmt(&self, _f: &mut core::fmt::Formatter<'_>) -> core::fmt::Result { unimplemented!() } }\nimpl core::fmt::Debug for ExprKind { fn fmt(&self, _f: &mut core::fmt::Formatter<'_>) -> core::fmt::Result { unimplemented!() } }\nfn main() {}\n"


# ----------------------------------------------------------------------------- replay on the real compiler
INPUTS = ["from t\nfilter (tuple_every 5)\n", "from t\nselect (tuple_map (x -> x + 1) 5)\n", "from t\nselect (tuple_zip 1 {a})\n", "from t\nselect (tuple_zip {a} 1)\n", "from t\nfilter (_eq 5)\n",
          "from t\nfilter (_eq {a})\n", "from t\nfilter (_eq {a, b, c})\n", "from t\nfilter (tuple_every {a > 1, b > 2})\n", "from t\nfilter (_eq {a, b})\n", "from t\nfilter (tuple_every {})\n"]


def _try(src):
    import replaylib
    ok, out = replaylib.compile_prql(src, "sql.sqlite")
    return {"input": src, "expected": "SQL or a list of errors (no panic)", "observed": out[:300], "failing": (not ok) and out.startswith("PANIC"), "replay_kind": "compile"}


def replay(failure):
    for src in INPUTS:
        r = _try(src)
        if r["failing"]:
            return r
    return {"failing": False}


def rerun(doc):
    return _try(doc["input"])


SWEEP_DOC = "calls of std.tuple_every / tuple_map / tuple_zip / _eq with non-tuples and with tuples of every width: the real prqlc answers with SQL or errors, never a panic"


def sweep():
    out = []
    for src in INPUTS:
        r = _try(src)
        r["obligation"] = "tuple_helpers.TE1"
        out.append(r)
    return out
