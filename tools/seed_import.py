#!/usr/bin/env python3
"""seed_import.py <prop> <n> <result-line> : copy /tmp/seed_<prop>/change<n> to /verif/seeded/<prop>-<n>/ and record my own confirmation."""
import json, os, shutil, sys
prop, n, result = sys.argv[1], sys.argv[2], sys.argv[3]
src = "/tmp/seed_%s/change%s" % (prop, n)
dst = "/verif/seeded/%s-%s" % (prop, n)
os.makedirs(dst, exist_ok=True)
for f in os.listdir(src):
    if os.path.isfile(os.path.join(src, f)):
        shutil.copy(os.path.join(src, f), dst)
meta = json.load(open(os.path.join(dst, "meta.json")))
meta["property"] = prop
meta["confirmed_by_me"] = {"procedure": "tools/seed_verify.sh <scratch worktree at /repo HEAD> <seed dir>: git apply patch; full test suite; "
                           "demo.sh with the patch; demo.sh on clean HEAD", "result": result}
json.dump(meta, open(os.path.join(dst, "meta.json"), "w"), indent=1)
print("imported", dst)
