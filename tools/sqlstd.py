"""Table anchor for prqlc/prqlc/src/sql/std.sql.prql: the data the real translate_operator interprets.

parse(text)       -> [Func]: module path (dialect / sub-module), name, params, annotations, body template or None (= `null`)
holes(template)   -> [Hole]: for every `{name[:N]}` its required strength (explicit N or None = function default) and its
                     syntactic position: delimited (function argument, list element, CAST .. AS) or operand of the
                     neighbouring operator(s) at the same nesting depth
top_class(tmpl)   -> the weakest operator that appears at nesting depth 0 of the template (what a parent sees), or None

Only tokenisation / position classification happens here; every comparison of strengths against the
oracle is emitted as a Verus assertion by the unit.
"""
import re


class Func:
    def __init__(self, module, name, params, ann, body, line):
        self.module, self.name, self.params, self.ann, self.body, self.line = module, name, params, ann, body, line

    @property
    def dialect(self):
        return self.module[0] if self.module and self.module[0] in DIALECTS else ""

    @property
    def path(self):
        mods = [m for m in self.module if m not in DIALECTS]
        return ".".join(mods + [self.name])

    @property
    def key(self):
        return "%s.%s" % (self.dialect or "std", self.path.replace(".", "_"))

    def __repr__(self):
        return "Func(%s %s ann=%s body=%r)" % (self.dialect or "std", self.path, self.ann, self.body)


DIALECTS = {"ansi", "bigquery", "clickhouse", "duckdb", "generic", "glaredb", "mssql", "mysql", "postgres", "sqlite",
            "snowflake", "redshift"}


def parse(text):
    funcs = []
    module = []
    pending = {}
    for no, raw in enumerate(text.split("\n"), 1):
        line = raw.strip()
        if not line or line.startswith("#"):
            continue
        if line.startswith("@{"):
            inner = line[2:line.rindex("}")]
            for part in re.findall(r'(\w+)\s*=\s*("(?:[^"\\]|\\.)*"|[^,]+)', inner):
                k, v = part
                v = v.strip()
                if v.startswith('"'):
                    v = v[1:-1]
                pending[k] = v
            continue
        m = re.match(r"module\s+(\w+)\s*\{", line)
        if m:
            module.append(m.group(1))
            continue
        if line == "}":
            module.pop()
            continue
        m = re.match(r"let\s+(`?\w+`?)\s*=\s*(.*?)\s*->\s*(.*)$", line)
        if m:
            name = m.group(1).strip("`")
            params = [p.strip("`") for p in m.group(2).split()]
            body = m.group(3).strip()
            if body == "null":
                tmpl = None
            else:
                mm = re.match(r's"(.*)"$', body)
                if not mm:
                    raise ValueError("std.sql.prql line %d: body is neither s-string nor null: %r" % (no, body))
                tmpl = mm.group(1)
            funcs.append(Func(list(module), name, params, pending, tmpl, no))
            pending = {}
            continue
        raise ValueError("std.sql.prql line %d not understood: %r" % (no, raw))
    return funcs


# ---------------------------------------------------------------------------------- template tokens
WORD_OPS = {"LIKE", "REGEXP", "DIV", "NOT", "AND", "OR", "IS", "IN", "BETWEEN"}
DELIM_WORDS = {"AS", "DISTINCT"}
SYM_OPS = ["||", "::", "<=", ">=", "<>", "!=", "~", "*", "/", "%", "+", "-", "<", ">", "="]


def tokenize(t):
    toks = []
    i = 0
    while i < len(t):
        c = t[i]
        if c.isspace():
            i += 1
        elif c == "{":
            j = t.index("}", i)
            inner = t[i + 1:j]
            name, _, fmt = inner.partition(":")
            toks.append(("hole", name, int(fmt) if fmt.strip().lstrip("-").isdigit() else None))
            i = j + 1
        elif c == "'":
            j = t.index("'", i + 1)
            toks.append(("lit", t[i:j + 1]))
            i = j + 1
        elif c in "(),":
            toks.append((c,))
            i += 1
        elif c.isalpha() or c == "_":
            m = re.match(r"[A-Za-z_][A-Za-z0-9_]*", t[i:])
            w = m.group(0)
            rest = t[i + len(w):].lstrip()
            if w == "REGEXP" and rest.startswith("("):
                toks.append(("word", w))   # REGEXP(...) is a function call in the generic template
            elif w.upper() in WORD_OPS and w.isupper():
                toks.append(("op", w))
            elif w.upper() in DELIM_WORDS and w.isupper():
                toks.append(("delim", w))
            else:
                toks.append(("word", w))
            i += len(w)
        elif c.isdigit():
            m = re.match(r"[0-9.]+", t[i:])
            toks.append(("lit", m.group(0)))
            i += len(m.group(0))
        else:
            for op in SYM_OPS:
                if t.startswith(op, i):
                    toks.append(("op", op))
                    i += len(op)
                    break
            else:
                raise ValueError("template character not understood: %r in %r" % (c, t))
    return toks


class Hole:
    def __init__(self, name, strength, left_op, right_op, delimited, named_arg=False):
        self.name, self.strength = name, strength
        self.left_op, self.right_op = left_op, right_op   # operator to the left (hole is its right operand) / to the right
        self.delimited = delimited

    def __repr__(self):
        return "Hole(%s:%s L=%s R=%s delim=%s)" % (self.name, self.strength, self.left_op, self.right_op, self.delimited)


def holes(template):
    toks = tokenize(template)
    out = []
    for i, t in enumerate(toks):
        if t[0] != "hole":
            continue
        left = toks[i - 1] if i > 0 else ("start",)
        right = toks[i + 1] if i + 1 < len(toks) else ("end",)
        lop = left[1] if left[0] == "op" else None
        rop = right[1] if right[0] == "op" else None
        # `name={x:0}` named argument of a table function (read_parquet): `=` is not an operator there
        if lop == "=" and i >= 2 and toks[i - 2][0] == "word" and (i < 3 or toks[i - 3][0] in (",", "(")):
            lop = None
        # a hole directly followed by `(`-less word or preceded by a word that is not an operator: treat as delimited
        # only when both neighbours are delimiters
        ldelim = left[0] in ("(", ",", "start", "delim") or (left[0] == "op" and lop is None)
        rdelim = right[0] in (")", ",", "end", "delim")
        if left[0] in ("word", "lit", "hole") or right[0] in ("word", "lit", "hole", "("):
            raise ValueError("hole %s in %r has a neighbour that cannot be classified: %r %r" % (t[1], template, left, right))
        out.append(Hole(t[1], t[2], lop, rop, ldelim and rdelim))
    return out


def top_ops(template):
    """operators at nesting depth 0 (prefix operators included)"""
    toks = tokenize(template)
    depth = 0
    ops = []
    for t in toks:
        if t[0] == "(":
            depth += 1
        elif t[0] == ")":
            depth -= 1
        elif t[0] == "op" and depth == 0:
            ops.append(t[1])
    return ops


# operator text -> oracle class name (SQLite grammar classes used by units/sql_prec.py)
OP_CLASS = {
    "||": "Concat", "*": "Mul", "/": "Mul", "%": "Mul", "DIV": "Mul", "+": "Add", "-": "Add",
    "<": "Rel", ">": "Rel", "<=": "Rel", ">=": "Rel", "=": "EqGrp", "<>": "EqGrp", "!=": "EqGrp",
    "LIKE": "EqGrp", "REGEXP": "EqGrp", "~": "EqGrp", "IS": "EqGrp", "IN": "EqGrp", "BETWEEN": "EqGrp",
    "NOT": "Not", "AND": "And", "OR": "Or", "::": "Atom",
}
LEVEL = {"Or": 1, "And": 2, "Not": 3, "EqGrp": 4, "Rel": 5, "Add": 8, "Mul": 9, "Concat": 10, "Neg": 12, "Atom": 100}


def top_class(template):
    toks = tokenize(template)
    ops = top_ops(template)
    if not ops:
        return "Atom"
    classes = []
    for k, o in enumerate(ops):
        c = OP_CLASS[o]
        classes.append(c)
    # a leading `-` is the prefix minus
    if toks and toks[0] == ("op", "-"):
        classes[0] = "Neg"
    return min(classes, key=lambda c: LEVEL[c])


ARITH = {"*", "/", "%", "DIV", "+", "-"}


def in_scope(f):
    """Rows are generated for std (generic) and sqlite templates (the grammars the oracle describes), and for other
    dialect modules only when every operator involved is arithmetic (same relative precedence in every SQL grammar)."""
    if f.body is None:
        return False
    if f.dialect in ("", "sqlite"):
        return True
    ops = set(top_ops(f.body))
    for h in holes(f.body):
        if not h.delimited:
            ops |= {o for o in (h.left_op, h.right_op) if o}
    return ops <= ARITH


if __name__ == "__main__":
    import sys
    fs = parse(open(sys.argv[1]).read())
    for f in fs:
        if f.body is None:
            continue
        hs = holes(f.body)
        interesting = [h for h in hs if not h.delimited]
        tc = top_class(f.body)
        if interesting or tc != "Atom":
            print(f.key, "S=%s" % f.ann.get("binding_strength"), "top=%s" % tc, f.body, interesting)
