"""Mechanical extractor: copies real items / statement slices / data tables out of /repo's
current working tree so that Verus (single-file dialect) sees *the code that runs*.

Nothing here understands Rust semantics: it is a tokenizer good enough to skip strings, raw
strings, chars vs lifetimes and (nested) comments, plus brace matching.  Every modification of
extracted text goes through Item.rewrite()/Item.contract()/Item.loop_contract() and is logged;
a rule that does not apply exactly as often as the unit says raises ExtractionError, which the
driver turns into exit 2 (UNDECIDED) -- never a pass, never a violation.
"""
import hashlib
import os
import re

REPO = os.environ.get("VERIF_REPO", "/repo")


class ExtractionError(Exception):
    pass


# --------------------------------------------------------------------------- tokenizer
def tokenize(src):
    """Yield (kind, start, end) with kind in {'ws','comment','str','char','life','ident','num','punct'}."""
    i, n = 0, len(src)
    out = []
    while i < n:
        c = src[i]
        if c.isspace():
            j = i + 1
            while j < n and src[j].isspace():
                j += 1
            out.append(("ws", i, j))
        elif src.startswith("//", i):
            j = src.find("\n", i)
            j = n if j < 0 else j
            out.append(("comment", i, j))
        elif src.startswith("/*", i):
            depth, j = 1, i + 2
            while j < n and depth:
                if src.startswith("/*", j):
                    depth += 1
                    j += 2
                elif src.startswith("*/", j):
                    depth -= 1
                    j += 2
                else:
                    j += 1
            out.append(("comment", i, j))
        elif c == '"' or (c in "br" and re.match(r'(b?r#*"|b")', src[i:i + 8])):
            m = re.match(r'(b?)(r?)(#*)"', src[i:i + 40])
            raw, hashes = m.group(2), m.group(3)
            j = i + m.end()
            if raw:
                close = '"' + hashes
                k = src.find(close, j)
                if k < 0:
                    raise ExtractionError("unterminated raw string at %d" % i)
                j = k + len(close)
            else:
                while j < n and src[j] != '"':
                    j += 2 if src[j] == "\\" else 1
                j += 1
            out.append(("str", i, j))
        elif c == "'":
            # char literal or lifetime
            m = re.match(r"'(\\.[^']*|[^\\'])'", src[i:i + 12])
            if m:
                j = i + m.end()
                out.append(("char", i, j))
            else:
                m = re.match(r"'[A-Za-z_][A-Za-z0-9_]*", src[i:])
                j = i + (m.end() if m else 1)
                out.append(("life", i, j))
        elif c.isalpha() or c == "_":
            m = re.match(r"[A-Za-z_][A-Za-z0-9_]*", src[i:])
            j = i + m.end()
            out.append(("ident", i, j))
        elif c.isdigit():
            m = re.match(r"[0-9][0-9A-Za-z_]*(\.[0-9][0-9A-Za-z_]*)?", src[i:])
            j = i + m.end()
            out.append(("num", i, j))
        else:
            j = i + 1
            out.append(("punct", i, j))
        i = j
    return out


def code_tokens(src):
    return [t for t in tokenize(src) if t[0] not in ("ws", "comment")]


def match_brace(src, toks, k, open_c="{", close_c="}"):
    """toks[k] is the opening brace; return index of matching close token."""
    depth = 0
    for idx in range(k, len(toks)):
        kind, s, e = toks[idx]
        if kind == "punct":
            ch = src[s]
            if ch == open_c:
                depth += 1
            elif ch == close_c:
                depth -= 1
                if depth == 0:
                    return idx
    raise ExtractionError("unbalanced %s" % open_c)


CLAUSE_KW = ("requires", "ensures", "decreases", "recommends", "returns", "invariant", "invariant_except_break",
             "ensures_break", "opens_invariants", "no_unwind", "via")


def find_block_open(src, toks, start_idx):
    """Index of the `{` token opening the body of the fn / loop whose keyword token is toks[start_idx].
    Braces that belong to expressions inside spliced spec clauses (match / if / struct literals) are
    skipped: once a clause keyword has been seen, only a `{` preceded by `,` opens the body (every
    contract this framework splices ends with a trailing comma).  Returns None for `;` (no body)."""
    depth = 0
    in_clause = False
    idx = start_idx
    while idx < len(toks):
        kind, s, e = toks[idx]
        if kind == "ident" and src[s:e] in CLAUSE_KW and depth == 0:
            in_clause = True
        elif kind == "punct":
            ch = src[s]
            if ch in "([":
                depth += 1
            elif ch in ")]":
                depth -= 1
            elif ch == "{" and depth == 0:
                prev = src[toks[idx - 1][1]:toks[idx - 1][2]]
                if not in_clause or prev == ",":
                    return idx
                idx = match_brace(src, toks, idx)
            elif ch == ";" and depth == 0:
                return None
        idx += 1
    return None


def line_of(src, off):
    return src.count("\n", 0, off) + 1


# --------------------------------------------------------------------------- items
class Item:
    """A piece of text copied verbatim from /repo plus a log of mechanical edits."""

    def __init__(self, ex, file, name, text, line_start, line_end, kind):
        self.ex = ex
        self.file, self.name, self.kind = file, name, kind
        self.orig = text
        self.text = text
        self.line_start, self.line_end = line_start, line_end
        self.sha256 = hashlib.sha256(text.encode()).hexdigest()
        self.rewrites = []
        ex.items.append(self)

    # -- logged edits -----------------------------------------------------------------
    def rewrite(self, rule, old, new, count=1, why=""):
        n = self.text.count(old)
        if count is not None and n != count:
            raise ExtractionError(
                "%s:%s rewrite %s: pattern %r occurs %d times, unit expects %d"
                % (self.file, self.name, rule, old, n, count))
        if n == 0:
            return self
        self.text = self.text.replace(old, new)
        self.rewrites.append({"rule": rule, "old": old, "new": new, "count": count, "why": why})
        return self

    def rewrite_re(self, rule, pat, new, count=None, why="", flags=re.S):
        res, n = re.subn(pat, new, self.text, flags=flags)
        if count is not None and n != count:
            raise ExtractionError(
                "%s:%s rewrite %s: regex %r matched %d times, unit expects %d"
                % (self.file, self.name, rule, pat, n, count))
        self.text = res
        if n:
            self.rewrites.append({"rule": rule, "regex": pat, "new": new if isinstance(new, str) else "<computed from the match>",
                                  "count": n, "why": why})
        return self

    def drop_logging(self):
        """R1: delete log::debug!/trace!/warn!(...) statements."""
        src = self.text
        out, i, n = [], 0, 0
        for m in re.finditer(r"log::(debug|trace|warn|info)!\s*\(", src):
            if m.start() < i:
                continue
            toks = code_tokens(src[m.end() - 1:])
            close = match_brace(src[m.end() - 1:], toks, 0, "(", ")")
            end = m.end() - 1 + toks[close][2]
            mm = re.match(r"\s*;", src[end:])
            if mm:
                end += mm.end()
            out.append(src[i:m.start()])
            i = end
            n += 1
        out.append(src[i:])
        self.text = "".join(out)
        if n:
            self.rewrites.append({"rule": "R1", "what": "deleted %d log::*! statements" % n})
        return self

    def inline_local_consts(self):
        """R9, constants: a function-local `const NAME: TYPE = EXPR;` is removed and EXPR is substituted for every use of NAME (what the compiler does with a const).
        Only constants whose initialiser is a literal / array of literals are handled; anything else is left in place."""
        n = 0
        for m in list(re.finditer(r"(?:^|\n)[ \t]*((?://[^\n]*\n[ \t]*)*)const ([A-Z][A-Z0-9_]*): ([^=]+?) = ((?:\[[^\[\];]*\])|(?:\"[^\"\n]*\")|(?:-?[0-9][0-9_a-z]*));", self.text)):
            name, init = m.group(2), m.group(4)
            before = self.text
            self.text = self.text.replace(m.group(0), "\n", 1)
            self.text = re.sub(r"\b%s\b" % re.escape(name), " ".join(init.split()), self.text)
            if self.text != before:
                n += 1
        if n:
            self.rewrites.append({"rule": "R9", "what": "%d function-local const(s) with a literal initialiser inlined at their uses" % n})
        return self

    def desugar_option_closures(self):
        """R8, generic: Option combinators that take a closure are rewritten into the `match` their std definition is:
             r.map(|x| e)           -> (match r { Some(x) => Some(e), None => None })
             r.and_then(|x| e)      -> (match r { Some(x) => e, None => None })
             r.map_or(d, |x| e)     -> (match r { Some(x) => e, None => d })
             r.map_or_else(f, |x| e) -> (match r { Some(x) => e, None => f() })
             r.is_some_and(|x| e)   -> (match r { Some(x) => e, None => false })
             r.filter(|x| e)        -> (match r { Some(v) => { let keep = { let x = &v; e }; if keep { Some(v) } else { None } }, None => None })
             r.ok_or_else(|| e)     -> (match r { Some(verif_v) => Ok(verif_v), None => Err(e) })
             r.unwrap_or_else(|| e) -> (match r { Some(verif_v) => verif_v, None => e })
        The receiver r is the postfix chain in front of the call.  A closure whose body contains `?` or `return` is left alone (control flow would change).
        Nothing here knows the receiver's type: on an iterator or a Result the rewritten text does not type-check and the unit is UNDECIDED (never an alarm)."""
        n = 0
        for _ in range(40):
            src = self.text
            toks = code_tokens(src)
            done = False
            for k, (kind, a, b) in enumerate(toks):
                name = src[a:b]
                if kind != "ident" or name not in ("map", "and_then", "map_or", "map_or_else", "is_some_and", "ok_or_else", "unwrap_or_else", "filter"):
                    continue
                if k < 1 or src[toks[k - 1][1]] != "." or k + 1 >= len(toks) or src[toks[k + 1][1]] != "(":
                    continue
                close = match_brace(src, toks, k + 1, "(", ")")
                # ---- arguments: [default ,] |x| body
                i = k + 2
                default = None
                if name in ("map_or", "map_or_else"):
                    depth, j = 0, i
                    while j < close:
                        ch = src[toks[j][1]]
                        if toks[j][0] == "punct" and ch in "([{":
                            depth += 1
                        elif toks[j][0] == "punct" and ch in ")]}":
                            depth -= 1
                        elif toks[j][0] == "punct" and ch == "," and depth == 0:
                            break
                        j += 1
                    if j >= close:
                        continue
                    default = src[toks[i][1]:toks[j - 1][2]]
                    i = j + 1
                if i >= close or src[toks[i][1]] != "|":
                    continue
                if name in ("ok_or_else", "unwrap_or_else"):
                    if src[toks[i + 1][1]] != "|":
                        continue
                    param, body_from = None, i + 2
                else:
                    if toks[i + 1][0] != "ident" or src[toks[i + 2][1]] != "|":
                        continue
                    param, body_from = src[toks[i + 1][1]:toks[i + 1][2]], i + 3
                if body_from >= close:
                    continue
                last = close - 1
                if src[toks[last][1]] == ",":
                    last -= 1
                body = src[toks[body_from][1]:toks[last][2]]
                btoks = [src[t[1]:t[2]] for t in toks[body_from:last + 1]]
                if "?" in btoks or "return" in btoks or "|" in btoks:
                    continue
                # ---- receiver: postfix chain in front of `.name`
                r = k - 2
                start = None
                while r >= 0:
                    ch = src[toks[r][1]]
                    if toks[r][0] == "punct" and ch in ")]":
                        opener = {")": "(", "]": "["}[ch]
                        depth, j = 0, r
                        while j >= 0:
                            cj = src[toks[j][1]]
                            if toks[j][0] == "punct" and cj == ch:
                                depth += 1
                            elif toks[j][0] == "punct" and cj == opener:
                                depth -= 1
                                if depth == 0:
                                    break
                            j -= 1
                        if j < 0:
                            break
                        start = j
                        r = j - 1
                        if r >= 0 and toks[r][0] == "ident" and src[toks[r][1]:toks[r][2]] not in ("if", "match", "while", "in", "return", "let", "else"):
                            continue
                        if r >= 0 and src[toks[r][1]] == ".":
                            r -= 1
                            continue
                        break
                    if toks[r][0] == "ident" or (toks[r][0] == "punct" and ch == "?"):
                        if toks[r][0] == "ident" and src[toks[r][1]:toks[r][2]] in ("if", "match", "while", "in", "return", "let", "else", "mut"):
                            break
                        start = r
                        r -= 1
                        if r >= 0 and src[toks[r][1]] == ".":
                            r -= 1
                            continue
                        if r >= 1 and src[toks[r][1]] == ":" and src[toks[r - 1][1]] == ":":
                            r -= 2
                            continue
                        break
                    break
                if start is None:
                    continue
                recv = src[toks[start][1]:toks[k - 2][2]]
                if name == "map":
                    new = "(match %s { Some(%s) => Some(%s), None => None })" % (recv, param, body)
                elif name == "and_then":
                    new = "(match %s { Some(%s) => %s, None => None })" % (recv, param, body)
                elif name == "map_or":
                    new = "(match %s { Some(%s) => %s, None => %s })" % (recv, param, body, default)
                elif name == "map_or_else":
                    new = "(match %s { Some(%s) => %s, None => (%s)() })" % (recv, param, body, default)
                elif name == "is_some_and":
                    new = "(match %s { Some(%s) => %s, None => false })" % (recv, param, body)
                elif name == "filter":
                    # Option::filter hands the closure a REFERENCE to the value and keeps the value when it answers true
                    new = "(match %s { Some(verif_f) => { let verif_keep = { let %s = &verif_f; %s }; if verif_keep { Some(verif_f) } else { None } }, None => None })" % (recv, param, body)
                elif name == "ok_or_else":
                    new = "(match %s { Some(verif_v) => Ok(verif_v), None => Err(%s) })" % (recv, body)
                else:
                    new = "(match %s { Some(verif_v) => verif_v, None => %s })" % (recv, body)
                self.text = src[:toks[start][1]] + new + src[toks[close][2]:]
                n += 1
                done = True
                break
            if not done:
                break
        if n:
            self.rewrites.append({"rule": "R8", "what": "%d Option combinator(s) with a closure (map / and_then / map_or / is_some_and / ok_or_else / unwrap_or_else) desugared to the match of their std definition" % n})
        return self

    def desugar_slice_patterns(self):
        """R15: `if let [a, b, ..] = XS.as_slice() {` (identifier sub-patterns only, no rest pattern) is what rustc lowers it to: a length test and
        references to the elements: `if XS.len() == N { let a = &XS[0]; let b = &XS[1];`.  Verus has no slice patterns.  Other forms are left alone (UNDECIDED)."""
        def repl(m):
            names = [n.strip() for n in m.group(1).split(",") if n.strip()]
            xs = m.group(2)
            return "if %s.len() == %d { %s" % (xs, len(names), " ".join("let %s = &%s[%d];" % (n, xs, i) for i, n in enumerate(names) if n != "_"))
        self.text, n = re.subn(r"if let \[((?:\s*\w+\s*,?)+)\] = (?:&)?([\w.]+)(?:\.as_slice\(\)|\[\.\.\]) \{", repl, self.text)
        if n:
            self.rewrites.append({"rule": "R15", "what": "%d slice pattern(s) `if let [a, b] = xs.as_slice()` desugared to a length test and element references" % n})
        return self

    def desugar_result_ctor_chains(self):
        """R8 (Result): `CALL.map(Ctor).unwrap_or(D)` -> `(match CALL { Ok(v) => Ctor(v), Err(_) => D })` and `CALL.map(Ctor).ok()` ->
        `(match CALL { Ok(v) => Some(Ctor(v)), Err(_) => None })`, `CALL.map(Ctor).map_err(|_| E)` -> `(match CALL { Ok(v) => Ok(Ctor(v)), Err(_) => Err(E) })` - the std definitions of Result::map / unwrap_or / ok; CALL is a call `f(..)` without nested calls,
        Ctor a constructor path (no closure)."""
        n = 0
        pat1 = re.compile(r"(\w+\([^()]*\))\s*\.map\((\w+(?:::\w+)+)\)\s*\.unwrap_or\(((?:[^()]|\([^()]*\))*)\)")
        self.text, k = pat1.subn(r"(match \1 { Ok(verif_v) => \2(verif_v), Err(_) => \3 })", self.text)
        n += k
        pat3 = re.compile(r"(\w+\([^()]*\))\s*\.map\((\w+(?:::\w+)+)\)\s*\.map_err\(\|_\w*\|\s*((?:[^()]|\([^()]*\))*)\)")
        self.text, k = pat3.subn(r"(match \1 { Ok(verif_v) => Ok(\2(verif_v)), Err(_) => Err(\3) })", self.text)
        n += k
        pat4 = re.compile(r"((?:\w+::)*\w+\([^()]*\))\s*\.map\(\|(\w+)\|\s*((?:[^()|]|\((?:[^()]|\([^()]*\))*\))*)\)\s*\.map_err\(\|_\w*\|\s*((?:[^()]|\([^()]*\))*)\)")
        self.text, k = pat4.subn(r"(match \1 { Ok(\2) => Ok(\3), Err(_) => Err(\4) })", self.text)
        n += k
        pat2 = re.compile(r"(\w+\([^()]*\))\s*\.map\((\w+(?:::\w+)+)\)\s*\.ok\(\)")
        self.text, k = pat2.subn(r"(match \1 { Ok(verif_v) => Some(\2(verif_v)), Err(_) => None })", self.text)
        n += k
        if n:
            self.rewrites.append({"rule": "R8", "what": "%d `call.map(Ctor).unwrap_or(d)` / `.ok()` chain(s) on a Result desugared to the match of their std definition" % n})
        return self

    def desugar_str_match(self):
        """R15 (strings): `match EXPR { "a" => A, "b" => B, name => C }` - string literal patterns and a final binding or `_` - is the chain of comparisons rustc compiles it to:
        `{ let verif_m = EXPR; if str_eq(verif_m, "a") { A } else if str_eq(verif_m, "b") { B } else { let name = verif_m; C } }` (Verus has no str patterns).
        str_eq is the unit's shim for `&str == &str`."""
        n = 0
        while True:
            src = self.text
            toks = code_tokens(src)
            done = False
            for i, (kind, a, b) in enumerate(toks):
                if not (kind == "ident" and src[a:b] == "match"):
                    continue
                j = find_block_open(src, toks, i + 1)
                if j is None:
                    continue
                close = match_brace(src, toks, j)
                # split the arms at top-level commas
                arms, depth, start = [], 0, toks[j][2]
                for k in range(j + 1, close):
                    ch = src[toks[k][1]]
                    if toks[k][0] == "punct" and ch in "([{":
                        depth += 1
                    elif toks[k][0] == "punct" and ch in ")]}":
                        depth -= 1
                    elif toks[k][0] == "punct" and ch == "," and depth == 0:
                        arms.append(src[start:toks[k][1]])
                        start = toks[k][2]
                if src[start:toks[close][1]].strip():
                    arms.append(src[start:toks[close][1]])
                parsed = []
                for arm in arms:
                    m = re.match(r"\s*(\"(?:[^\"\\]|\\.)*\"|\w+)\s*=>\s*(.*)$", arm, re.S)
                    if not m:
                        parsed = None
                        break
                    parsed.append((m.group(1), m.group(2).strip()))
                if not parsed or not parsed[0][0].startswith('"') or parsed[-1][0].startswith('"') or any(not p.startswith('"') for p, _ in parsed[:-1]):
                    continue
                scrut = src[toks[i][2]:toks[j][1]].strip()
                out = "{ let verif_m = %s; " % scrut
                for pat, body in parsed[:-1]:
                    out += "if str_eq(verif_m, %s) { %s } else " % (pat, body)
                last_pat, last_body = parsed[-1]
                out += "{ %s%s } }" % ("" if last_pat == "_" else "let %s = verif_m; " % last_pat, last_body)
                self.text = src[:a] + out + src[toks[close][2]:]
                n += 1
                done = True
                break
            if not done:
                break
        if n:
            self.rewrites.append({"rule": "R15", "what": "%d `match` on a str with literal patterns desugared to a chain of str_eq comparisons" % n})
        return self

    def desugar_map_transpose(self):
        """R8 (Option<Result>): `OPT.map(|x| CALL).transpose()?` is, by the std definitions of Option::map and Option::transpose,
        `(match OPT { Some(x) => Some(CALL?), None => None })`.  OPT is a field path."""
        pat = re.compile(r"([\w.]+)\s*\.map\(\|(\w+)\|\s*((?:[^()]|\([^()]*\))*?)\)\s*\.transpose\(\)\?", re.S)
        self.text, n = pat.subn(lambda m: "(match %s { Some(%s) => Some(%s?), None => None })" % (m.group(1), m.group(2), m.group(3).strip()), self.text)
        # the same with a function NAME instead of a closure: `OPT.map(f).transpose()?`
        pat2 = re.compile(r"([\w.]+)\s*\.map\(\s*([A-Za-z_][\w:]*)\s*\)\s*\.transpose\(\)\?", re.S)
        self.text, n2 = pat2.subn(lambda m: "(match %s { Some(verif_mt) => Some(%s(verif_mt)?), None => None })" % (m.group(1), m.group(2)), self.text)
        n += n2
        if n:
            self.rewrites.append({"rule": "R8", "what": "%d `opt.map(|x| call).transpose()?` / `opt.map(f).transpose()?` desugared to `match opt { Some(x) => Some(call?), None => None }`" % n})
        return self

    def desugar_try_collect(self, ghost_tpl="", invariant_tpl="", end_tpl="", after_tpl=""):
        """R14: `XS.into_iter().map(|PAT| BODY).try_collect()` - optionally followed by `?` - is the loop that Iterator::map + Itertools::try_collect are:
               { let mut verif_outK = Vec::new(); let mut verif_tcK = verif_into_iter(XS);
                 while let Some(PAT) = verif_tcK.next() { verif_outK.push(ELEM); }  verif_outK  /  Ok(verif_outK) }
        ELEM is `BODY?` when the closure's body is an expression of type Result, and `E` when the body is the block `{ Ok(E) }` (a `?` inside E left the
        closure with the error, which try_collect returns at once: the same as leaving the function, because the chain is followed by `?` or is the
        function's tail expression - anything else is an extraction error).  XS is a field path.  Ghost text (a capture of XS@ before it is moved, the
        unit's loop invariant and proof hints, templates with {K}) is spliced in; it is annotation only.  Returns the number of loops generated."""
        k = 0
        while True:
            src = self.text
            m = re.search(r"(\w+(?:\s*\.\s*\w+)*?)\s*\.into_iter\(\)\s*\.map\(", src)
            if not m:
                break
            toks = code_tokens(src)
            ti = next(i for i, t in enumerate(toks) if t[1] == m.end() - 1)
            close = match_brace(src, toks, ti, "(", ")")
            after = src[toks[close][2]:]
            m2 = re.match(r"\s*\.try_collect\(\)(\?)?", after)
            if not m2:
                raise ExtractionError("%s: `.into_iter().map(..)` is not followed by `.try_collect()`" % self.name)
            k += 1
            question = bool(m2.group(1))
            end = toks[close][2] + m2.end()
            if not question and not re.match(r"\s*\}\s*$", src[end:]):
                raise ExtractionError("%s: a `.try_collect()` without `?` that is not the function's tail expression" % self.name)
            inner = src[toks[ti][2]:toks[close][1]].strip().rstrip(",").strip()
            mc = re.match(r"\|((?:[^|])*)\|\s*(->\s*[^{]+)?", inner)
            if not mc:
                raise ExtractionError("%s: argument of map is not a closure" % self.name)
            pat = mc.group(1).strip()
            body = inner[mc.end():].strip()
            pre = ""
            if mc.group(2):
                mb = re.match(r"^\{\s*Ok\((.*)\)\s*\}$", body, re.S)
                if not mb:
                    # `{ let a = ..; let b = ..; Ok(E) }`: the statements in front of the result run once per element, a `?` in them leaves the function as before
                    mb2 = re.match(r"^\{(.*;)\s*Ok\((.*)\)\s*\}$", body, re.S)
                    if not mb2 or re.search(r"\breturn\b", mb2.group(1)):
                        raise ExtractionError("%s: closure with a return type whose body is not `{ [statements;] Ok(..) }`" % self.name)
                    pre, elem = mb2.group(1).strip() + "\n                ", mb2.group(2).strip()
                else:
                    elem = mb.group(1).strip()
            else:
                elem = "(%s)?" % body
            K = str(k)
            recv = re.sub(r"\s+", "", m.group(1))
            fmt = lambda t: t.replace("{K}", K)
            new = ("{\n            let ghost verif_src%s = %s@;\n%s            let mut verif_out%s = Vec::new();\n            let mut verif_tc%s = verif_into_iter(%s);\n"
                   "            while let Some(%s) = verif_tc%s.next()\n%s            {\n                %sverif_out%s.push(%s);\n%s            }\n%s            %s\n        }"
                   % (K, recv, fmt(ghost_tpl), K, K, recv, pat, K, fmt(invariant_tpl), pre, K, elem, fmt(end_tpl), fmt(after_tpl), ("verif_out%s" % K) if question else ("Ok(verif_out%s)" % K)))
            self.text = src[:m.start(1)] + new + src[end:]
            self.rewrites.append({"rule": "R14", "what": "`%s.into_iter().map(|%s| ..).try_collect()%s` desugared to the loop it is (push of each mapped element, error leaves the function)" % (recv, pat, "?" if question else "")})
        return k

    def drop_attrs(self):
        """R2: delete #[...] attributes and doc comments inside the extracted text."""
        src = self.text
        toks = tokenize(src)
        out, i, k, n = [], 0, 0, 0
        while k < len(toks):
            kind, s, e = toks[k]
            if kind == "comment" and (src.startswith("///", s) or src.startswith("//!", s)):
                out.append(src[i:s])
                i = e
                n += 1
            elif kind == "punct" and src[s] == "#":
                # find '[' possibly after '!'
                j = k + 1
                while j < len(toks) and toks[j][0] in ("ws",):
                    j += 1
                if j < len(toks) and src[toks[j][1]] == "!":
                    j += 1
                if j < len(toks) and src[toks[j][1]] == "[":
                    ct = [t for t in toks[j:] if t[0] not in ("ws", "comment")]
                    close = match_brace(src, ct, 0, "[", "]")
                    out.append(src[i:s])
                    i = ct[close][2]
                    n += 1
                    while k < len(toks) and toks[k][1] < i:
                        k += 1
                    continue
            k += 1
        out.append(src[i:])
        self.text = "".join(out)
        if n:
            self.rewrites.append({"rule": "R2", "what": "deleted %d attributes/doc comments" % n})
        return self

    def pub_all(self):
        """R6: pub(super)/pub(crate)/pub(in ..) -> pub."""
        self.text, n = re.subn(r"\bpub\s*\((super|crate|self|in [^)]*)\)", "pub", self.text)
        if n:
            self.rewrites.append({"rule": "R6", "what": "%d restricted visibilities -> pub" % n})
        return self

    def annotate_closures(self, types=None, default="i64", expect=None, only=None, fn_sigs=None):
        """R3, generic: every closure `|a, b| BODY` with untyped identifier parameters that is passed as
        a call argument gets parameter types, a named result and a contract *derived mechanically from
        its own body text*:  requires (integer results) that BODY, read over mathematical integers, fits
        the result type; ensures r == (BODY).  The body text itself is kept.  Because the contract is
        regenerated from whatever the body is on this run, an edit of the closure in /repo changes the
        contract with it and the callers' postconditions decide whether the property still holds."""
        types = types or {}
        src = self.text
        toks = code_tokens(src)
        edits = []
        i = 0
        while i < len(toks):
            kind, s, e = toks[i]
            if kind == "punct" and src[s] == "|" and i > 0 and src[toks[i - 1][1]:toks[i - 1][2]] in ("(", ","):
                # parameters
                j = i + 1
                params = []
                ok = True
                while j < len(toks) and src[toks[j][1]] != "|":
                    t = src[toks[j][1]:toks[j][2]]
                    if toks[j][0] == "ident":
                        params.append(t)
                    elif t != ",":
                        ok = False
                    j += 1
                if not ok or not params or j >= len(toks):
                    i += 1
                    continue
                if only is not None and tuple(params) not in only:
                    i = j + 1
                    continue
                # body: up to the `)` / `,` that ends the argument at depth 0
                k = j + 1
                if src[toks[k][1]] == "{":
                    i = j + 1
                    continue  # block closures are annotated by hand in the unit
                depth = 0
                while k < len(toks):
                    ch = src[toks[k][1]:toks[k][2]]
                    if toks[k][0] == "punct":
                        if ch in "([{":
                            depth += 1
                        elif ch in ")]}":
                            if depth == 0:
                                break
                            depth -= 1
                        elif ch == "," and depth == 0:
                            break
                    k += 1
                body = src[toks[j][2]:toks[k][1]].strip()
                is_bool = bool(re.search(r"(>=|<=|==|!=|<|>|&&|\|\|)", re.sub(r"->", "", body)))
                ps = ", ".join("%s: %s" % (p_, types.get(p_, default)) for p_ in params)
                mcall = re.match(r"^([A-Za-z_][A-Za-z0-9_]*)\((.*)\)$", body, re.S)
                if mcall and fn_sigs and mcall.group(1) in fn_sigs and "(" not in mcall.group(2):
                    # closure whose body is a direct call of a function under contract: it inherits that contract
                    # (call_requires / call_ensures), parameter types come from the callee's signature
                    callee = mcall.group(1)
                    ptypes, rtype = fn_sigs[callee]
                    args = [a.strip() for a in mcall.group(2).split(",")]
                    if len(args) == len(ptypes) and all(p_ in args for p_ in params):
                        ps = ", ".join("%s: %s" % (p_, ptypes[args.index(p_)]) for p_ in params)
                        tup = "(%s%s)" % (", ".join(args), "," if len(args) == 1 else "")
                        new = ("|%s| -> (r: %s) requires call_requires(%s, %s), ensures call_ensures(%s, %s, r) { %s }"
                               % (ps, rtype, callee, tup, callee, tup, body))
                        edits.append((s, toks[k][1], new, body))
                        i = k
                        continue
                if is_bool:
                    # parameter types of a bool-valued closure can be left to rustc's inference
                    ps_b = ", ".join(("%s: %s" % (p_, types[p_])) if p_ in types else p_ for p_ in params)
                    new = "|%s| -> (r: bool) ensures r == (%s) { %s }" % (ps_b, body, body)
                else:
                    new = ("|%s| -> (r: i64) requires i64::MIN <= (%s) <= i64::MAX, ensures r == (%s) { %s }"
                           % (ps, body, body, body))
                edits.append((s, toks[k][1], new, body))
                i = k
                continue
            i += 1
        if expect is not None and len(edits) != expect:
            raise ExtractionError("%s: annotate_closures found %d closures, unit expects %d"
                                  % (self.name, len(edits), expect))
        for s0, e0, new, body in reversed(edits):
            src = src[:s0] + new + src[e0:]
        self.text = src
        for s0, e0, new, body in edits:
            self.rewrites.append({"rule": "R3", "what": "closure `%s` given parameter types and a contract derived "
                                  "from its own body text (body unchanged)" % body})
        return self

    def add_spec_twins(self, renames):
        """For every `fn NAME(&self) -> T { BODY }` in this impl/trait text whose NAME is a key of `renames`,
        append `open spec fn spec_NAME(&self) -> T { BODY' }` where BODY' is the same text with calls
        `.NAME()` renamed to `.spec_NAME()`.  The exec method gets `ensures r == self.spec_NAME()` from the
        trait declaration, so Verus proves the twin equal to the real body on every run: the twin is not a
        model, it is the same text re-read in spec mode."""
        src = self.text
        toks = code_tokens(src)
        twins = []
        for idx, (kind, s, e) in enumerate(toks):
            if kind == "ident" and src[s:e] == "fn" and idx + 1 < len(toks):
                nm = src[toks[idx + 1][1]:toks[idx + 1][2]]
                if nm not in renames:
                    continue
                bi = find_block_open(src, toks, idx)
                if bi is None:
                    continue
                close = match_brace(src, toks, bi)
                sig = src[toks[idx + 1][2]:toks[bi][1]]
                body = src[toks[bi][1]:toks[close][2]]
                for a, b in renames.items():
                    body = re.sub(r"\.%s\(\)" % a, ".%s()" % b, body)
                twins.append("    open spec fn %s%s%s" % (renames[nm], sig, body))
        if not twins:
            raise ExtractionError("%s: no method found for spec twins" % self.name)
        last = src.rindex("}")
        self.text = src[:last] + "\n" + "\n".join(twins) + "\n" + src[last:]
        self.rewrites.append({"rule": "twin", "what": "appended %d spec twins (same body text re-read in spec mode; "
                              "equality with the exec method is a proved postcondition)" % len(twins)})
        return self

    def label_line_containing(self, needle, label):
        """Append `// @label` to the (single) line containing needle (comment only)."""
        lines = self.text.split("\n")
        hits = [i for i, l in enumerate(lines) if needle in l]
        if len(hits) != 1:
            raise ExtractionError("%s: label anchor %r on %d lines" % (self.name, needle, len(hits)))
        lines[hits[0]] += " // @" + label
        self.text = "\n".join(lines)
        return self

    # -- contract splicing (insertions only; never replaces text) ------------------------
    def _body_open(self, fn_name=None):
        src = self.text
        toks = code_tokens(src)
        start = 0
        if fn_name:
            for idx, (kind, s, e) in enumerate(toks):
                if kind == "ident" and src[s:e] == "fn" and idx + 1 < len(toks) and \
                        src[toks[idx + 1][1]:toks[idx + 1][2]] == fn_name:
                    start = idx
                    break
            else:
                raise ExtractionError("%s: fn %s not found for contract" % (self.name, fn_name))
        else:
            for idx, (kind, s, e) in enumerate(toks):
                if kind == "ident" and src[s:e] == "fn":
                    start = idx
                    break
        bi = find_block_open(src, toks, start)
        if bi is None:
            raise ExtractionError("%s: fn has no body" % self.name)
        return toks, bi

    def ret_name(self, name, fn_name=None):
        """Name the return value: `-> T {` becomes `-> (name: T) {` (annotation only, R3)."""
        toks, bi = self._body_open(fn_name)
        src = self.text
        # the fn token this body belongs to, then its parameter list, then `->`
        fi = None
        for idx in range(bi, -1, -1):
            kind, s, e = toks[idx]
            if kind == "ident" and src[s:e] == "fn" and (fn_name is None or
                                                         src[toks[idx + 1][1]:toks[idx + 1][2]] == fn_name):
                fi = idx
                break
        arrow = None
        if fi is not None:
            for idx in range(fi, bi):
                if toks[idx][0] == "punct" and src[toks[idx][1]] == "(":
                    close = match_brace(src, toks, idx, "(", ")")
                    if close + 2 < len(toks) and src[toks[close + 1][1]] == "-" and src[toks[close + 2][1]] == ">":
                        arrow = close + 2
                    break
        if arrow is None:
            raise ExtractionError("%s: no return type to name" % self.name)
        ty_start = toks[arrow][2]
        # return type ends at 'where' or body
        ty_end = toks[bi][1]
        for idx in range(arrow + 1, bi):
            kind, s, e = toks[idx]
            if kind == "ident" and src[s:e] == "where":
                ty_end = s
                break
        ty = src[ty_start:ty_end].strip()
        self.text = src[:ty_start] + " (" + name + ": " + ty + ") " + src[ty_end:]
        self.rewrites.append({"rule": "R3", "what": "named return value %s" % name})
        return self

    def contract(self, text, fn_name=None):
        toks, bi = self._body_open(fn_name)
        s = toks[bi][1]
        self.text = self.text[:s] + "\n" + text.strip("\n") + "\n" + self.text[s:]
        self.rewrites.append({"rule": "contract", "fn": fn_name or self.name,
                              "what": "spliced requires/ensures/decreases before body"})
        return self

    def loop_contract(self, ordinal, text, fn_name=None):
        """Insert invariant/decreases text before the body of the ordinal-th (1-based) loop."""
        toks, bi = self._body_open(fn_name)
        src = self.text
        cnt = 0
        idx = bi
        while idx < len(toks):
            kind, s, e = toks[idx]
            if kind == "ident" and src[s:e] in ("for", "while", "loop"):
                # `for` in `impl X for Y` / HRTB does not occur inside bodies
                cnt += 1
                if cnt == ordinal:
                    j = find_block_open(src, toks, idx + 1)
                    if j is not None:
                        s2 = toks[j][1]
                        self.text = src[:s2] + "\n" + text.strip("\n") + "\n" + src[s2:]
                        self.rewrites.append({"rule": "contract", "fn": fn_name or self.name,
                                              "what": "spliced loop contract on loop #%d" % ordinal})
                        return self
                    raise ExtractionError("loop body not found")
            idx += 1
        raise ExtractionError("%s: loop #%d not found" % (self.name, ordinal))

    def _loop_body(self, ordinal, fn_name=None):
        toks, bi = self._body_open(fn_name)
        src = self.text
        cnt = 0
        for idx in range(bi, len(toks)):
            kind, s, e = toks[idx]
            if kind == "ident" and src[s:e] in ("for", "while", "loop"):
                cnt += 1
                if cnt == ordinal:
                    j = find_block_open(src, toks, idx + 1)
                    if j is None:
                        break
                    return toks[j][2], toks[match_brace(src, toks, j)][1]
        raise ExtractionError("%s: loop #%d not found" % (self.name, ordinal))

    def insert_in_loop(self, ordinal, at_start, at_end, why, fn_name=None):
        """Insert ghost/proof text right after the opening brace and right before the closing brace of the body of the
        ordinal-th loop (no statement anchors, so edits of the body do not lose the proof hints)."""
        a, b = self._loop_body(ordinal, fn_name)
        self.text = self.text[:a] + "\n" + at_start + "\n" + self.text[a:b] + "\n" + at_end + "\n" + self.text[b:]
        self.rewrites.append({"rule": "proof", "at": "loop #%d body start/end" % ordinal, "what": why})
        return self

    def desugar_for(self, ordinal, fn_name=None):
        """R11: the ordinal-th loop, which must be `for PAT in EXPR { .. }` over a by-value Vec, is desugared the way rustc does it:
        `let mut verif_itN = verif_into_iter(EXPR); while let Some(PAT) = verif_itN.next() { .. }` (Verus' own `for` supports neither
        `continue` nor an iterator that is consumed).  verif_into_iter / VerifIter::next are shims by contract (common_std.VERIF_ITER)."""
        toks, bi = self._body_open(fn_name)
        src = self.text
        cnt = 0
        for idx in range(bi, len(toks)):
            kind, s, e = toks[idx]
            if kind == "ident" and src[s:e] in ("for", "while", "loop"):
                cnt += 1
                if cnt != ordinal:
                    continue
                if src[s:e] != "for":
                    raise ExtractionError("%s: loop #%d is not a for loop" % (self.name, ordinal))
                j = find_block_open(src, toks, idx + 1)
                k_in = next((k for k in range(idx + 1, j) if toks[k][0] == "ident" and src[toks[k][1]:toks[k][2]] == "in"), None)
                if k_in is None:
                    raise ExtractionError("%s: `in` of for loop #%d not found" % (self.name, ordinal))
                pat = src[toks[idx][2]:toks[k_in][1]].strip()
                expr = src[toks[k_in][2]:toks[j][1]].strip()
                it = "verif_it%d" % ordinal
                mrev = re.match(r"^([\w.]+)\.iter\(\)\.rev\(\)$", expr)
                mref = re.match(r"^(?:([\w.]+)\.iter\(\)|&([\w.]+))$", expr)
                if mrev:
                    ctor = "verif_rev_iter(&%s)" % mrev.group(1)
                elif mref:
                    ctor = "verif_ref_iter(&%s)" % (mref.group(1) or mref.group(2))
                else:
                    ctor = "verif_into_iter(%s)" % expr
                self.text = (src[:s] + "let mut %s = %s;\n        while let Some(%s) = %s.next() " % (it, ctor, pat, it) + src[toks[j][1]:])
                self.rewrites.append({"rule": "R11", "what": "`for %s in %s` desugared to `let mut %s = %s; while let Some(%s) = %s.next()`" % (pat, expr, it, ctor.split("(")[0] + "(..)", pat, it)})
                return it
        raise ExtractionError("%s: loop #%d not found" % (self.name, ordinal))

    def desugar_range_for(self, ordinal, fn_name=None):
        """R11 (ranges): the ordinal-th loop, which must be `for _ in 0..N { .. }`, is desugared as rustc does for a Range<usize>:
        `let verif_endK = N; let mut verif_iK: usize = 0; while verif_iK < verif_endK { verif_iK = verif_iK + 1; .. }` (N is evaluated once; `break` keeps
        its meaning).  Returns the name of the counter."""
        toks, bi = self._body_open(fn_name)
        src = self.text
        cnt = 0
        for idx in range(bi, len(toks)):
            kind, s, e = toks[idx]
            if kind == "ident" and src[s:e] in ("for", "while", "loop"):
                cnt += 1
                if cnt != ordinal:
                    continue
                j = find_block_open(src, toks, idx + 1)
                head = src[s:toks[j][1]]
                m = re.match(r"for _ in 0\.\.(.+?)\s*$", head, re.S)
                if not m:
                    raise ExtractionError("%s: loop #%d is not `for _ in 0..N`" % (self.name, ordinal))
                i, n = "verif_i%d" % ordinal, "verif_end%d" % ordinal
                self.text = (src[:s] + "let %s: usize = %s;\n            let mut %s: usize = 0;\n            while %s < %s " % (n, m.group(1).strip(), i, i, n)
                             + "{\n                %s = %s + 1;" % (i, i) + src[toks[j][2]:])
                self.rewrites.append({"rule": "R11", "what": "`for _ in 0..%s` desugared to a counter loop (`let %s = ..; let mut %s = 0; while %s < %s { %s += 1; ..`)" % (m.group(1).strip(), n, i, i, n, i)})
                return i
        raise ExtractionError("%s: loop #%d not found" % (self.name, ordinal))

    def rebind_mut_self(self):
        """R3: `fn f(mut self, ..)` -> `fn f(self, ..) { let mut verif_self = self; .. }` with the body's occurrences of `self` alpha-renamed (Verus has no `mut self`)."""
        toks, bi = self._body_open()
        src = self.text
        head, body = src[:toks[bi][2]], src[toks[bi][2]:]
        if not re.search(r"\(\s*mut self\b", head):
            return self
        head = re.sub(r"\(\s*mut self\b", "(self", head, count=1)
        btoks = code_tokens(body)
        out, last = [], 0
        for kind, a, b in btoks:
            if kind == "ident" and body[a:b] == "self":
                out.append(body[last:a] + "verif_self")
                last = b
        out.append(body[last:])
        self.text = head + "\n    let mut verif_self = self;" + "".join(out)
        self.rewrites.append({"rule": "R3", "what": "`mut self` rebound: `let mut verif_self = self;`, occurrences of `self` in the body renamed"})
        return self

    def rebind_mut_params(self):
        """R3: `fn f(.., mut x: T, ..)` -> `fn f(.., x0: T, ..) { let mut x = x0; .. }` (the contract names the entry value x0); `mut self` goes through rebind_mut_self."""
        self.rebind_mut_self()
        toks, bi = self._body_open()
        src = self.text
        head, body = src[:toks[bi][2]], src[toks[bi][2]:]
        names = re.findall(r"[(,]\s*mut (\w+)\s*:", head)
        if not names:
            return self
        lets = ""
        for nm in names:
            head = re.sub(r"([(,]\s*)mut %s(\s*:)" % nm, r"\g<1>%s0\2" % nm, head, count=1)
            lets += "\n    let mut %s = %s0;" % (nm, nm)
        self.text = head + lets + body
        self.rewrites.append({"rule": "R3", "what": "`mut` parameter(s) %s rebound: `let mut x = x0;`" % ", ".join(names)})
        return self

    def insert_at_body_start(self, text, why, fn_name=None):
        """Insert ghost/proof text right after the opening brace of the fn body (no statement anchor needed)."""
        toks, bi = self._body_open(fn_name)
        p = toks[bi][2]
        self.text = self.text[:p] + "\n" + text + "\n" + self.text[p:]
        self.rewrites.append({"rule": "proof", "at": "body start", "what": why})
        return self

    STR_PREDICATES = ("starts_with", "ends_with", "eq_ignore_ascii_case", "is_ascii")

    def shim_str_predicates(self):
        """R5, generic: `recv.starts_with(arg)` (and the other boolean str predicates Verus has no specification
        for) becomes `str_pred_starts_with(&recv, arg)`, an external function whose result is unconstrained.
        Sound for proofs (both outcomes must satisfy the contract) and it keeps text that starts using such a
        predicate inside the verifier's dialect instead of ending in UNDECIDED."""
        n_total = 0
        for pred in self.STR_PREDICATES:
            pat = r"\b([A-Za-z_][A-Za-z0-9_]*(?:\.[A-Za-z_][A-Za-z0-9_]*)*)\.%s\(" % pred
            self.text, n = re.subn(pat, lambda m: "str_pred_%s(&%s, " % (pred, m.group(1)), self.text)
            # `.is_empty()` has no argument: fix the dangling ", )"
            n_total += n
        self.text = self.text.replace(", )", ")")
        if n_total:
            self.rewrites.append({"rule": "R5", "what": "%d boolean str predicates replaced by unconstrained external "
                                  "functions str_pred_*" % n_total})
        return self

    SORTS = ("sort_by_key", "sort_by", "sort_unstable_by_key", "sort_unstable_by", "sort_by_cached_key", "sort", "sort_unstable", "reverse",
             "dedup_by_key", "dedup_by", "dedup", "retain_mut", "retain")

    def shim_reorderings(self):
        """R5, generic: `recv.sort_by_key(..)`, `.sort()`, `.reverse()`, `.dedup()`, `.retain(..)` ... on a vector become
        `verif_reorder(&mut recv)`: an external function that may return ANY vector (no contract).  An over-approximation that is
        sound for proofs and keeps text that starts re-ordering / filtering a vector inside the verifier's dialect."""
        src = self.text
        n_total = 0
        for name in self.SORTS:
            while True:
                m = re.search(r"\b([A-Za-z_][A-Za-z0-9_]*(?:\.[A-Za-z_][A-Za-z0-9_]*)*)\.%s\(" % name, src)
                if not m:
                    break
                toks = code_tokens(src[m.end() - 1:])
                close = match_brace(src[m.end() - 1:], toks, 0, "(", ")")
                end = m.end() - 1 + toks[close][2]
                src = src[:m.start()] + "verif_reorder(&mut %s)" % m.group(1) + src[end:]
                n_total += 1
        self.text = src
        if n_total:
            self.rewrites.append({"rule": "R5", "what": "%d in-place re-ordering / filtering call(s) on a vector replaced by verif_reorder() "
                                  "(result unconstrained)" % n_total})
        return self

    def inline_local_callees(self, X, file, exclude=(), max_rounds=3):
        """R9, generic: a call `helper(a1, .., an)` of a free function defined in the same file (and not one of the unit's shims) is
        replaced by the block `{ let p1 = a1; ..; let pn = an; BODY }` with the helper's own body text, provided the body has no
        `return` and no `?`.  This is what a compiler inliner does; it lets the caller's contract see through a helper that a
        refactoring extracted, instead of needing a contract for it."""
        src_file = X.read(file)
        for _ in range(max_rounds):
            changed = False
            for m in list(re.finditer(r"(?<![\w.:>])([a-z_][a-z0-9_]*)\(", self.text)):
                name = m.group(1)
                if name in exclude or name in ("if", "while", "match", "for", "return", "loop", "fn", "let", "assert", "proof", "forall", "exists"):
                    continue
                if re.search(r"\bfn\s+%s\b" % name, self.text):
                    continue   # defined inside this item (nested fn)
                toks, idx = X._find_item(src_file, "fn", name)
                if idx is None:
                    continue
                s0, e0 = X._item_span(src_file, toks, idx)
                callee = src_file[s0:e0]
                ctoks = code_tokens(callee)
                k = next(i for i, t in enumerate(ctoks) if callee[t[1]:t[2]] == "fn")
                # parameter list
                po = next(i for i in range(k, len(ctoks)) if callee[ctoks[i][1]] == "(")
                pc = match_brace(callee, ctoks, po, "(", ")")
                params_txt = callee[ctoks[po][2]:ctoks[pc][1]]
                bo = find_block_open(callee, ctoks, k)
                if bo is None:
                    continue
                bc = match_brace(callee, ctoks, bo)
                body = callee[ctoks[bo][2]:ctoks[bc][1]]
                if re.search(r"\breturn\b|\?\s*[;)\n.]", body) or "self" in params_txt or "<" in callee[ctoks[k][1]:ctoks[po][1]]:
                    continue
                params = []
                depth = 0
                cur = ""
                for ch in params_txt:
                    if ch in "(<[":
                        depth += 1
                    elif ch in ")>]":
                        depth -= 1
                    if ch == "," and depth == 0:
                        params.append(cur)
                        cur = ""
                    else:
                        cur += ch
                if cur.strip():
                    params.append(cur)
                pnames = [p_.split(":", 1)[0].strip().replace("mut ", "") for p_ in params]
                ptypes = [p_.split(":", 1)[1].strip() for p_ in params]
                # the call's arguments
                ttoks = code_tokens(self.text[m.end() - 1:])
                close = match_brace(self.text[m.end() - 1:], ttoks, 0, "(", ")")
                end = m.end() - 1 + ttoks[close][2]
                args_txt = self.text[m.end():end - 1]
                args, depth, cur = [], 0, ""
                for ch in args_txt:
                    if ch in "([{":
                        depth += 1
                    elif ch in ")]}":
                        depth -= 1
                    if ch == "," and depth == 0:
                        args.append(cur)
                        cur = ""
                    else:
                        cur += ch
                if cur.strip():
                    args.append(cur)
                if len(args) != len(pnames):
                    continue
                block = "{ " + " ".join("let %s: %s = %s;" % (pn, pt, a.strip()) for pn, pt, a in zip(pnames, ptypes, args)) + body + " }"
                self.text = self.text[:m.start()] + block + self.text[end:]
                self.rewrites.append({"rule": "R9", "what": "call of local helper `%s` (%s) inlined at its call site" % (name, file)})
                changed = True
                break
            if not changed:
                break
        return self

    def eta_expand_constructors(self):
        """R10, generic: `.map(Enum::Variant)` (a tuple-variant constructor used as a function value, which Verus does not support)
        becomes `.map(|v| -> (r: Enum) ensures r == Enum::Variant(v) { Enum::Variant(v) })`: the same function, written as a closure
        with the contract that IS its definition."""
        def repl(m):
            return ".map(|v| -> (r: %s) ensures r == %s::%s(v) { %s::%s(v) })" % (m.group(1), m.group(1), m.group(2), m.group(1), m.group(2))
        self.text, n = re.subn(r"\.map\(([A-Z][A-Za-z0-9_]*)::([A-Z][A-Za-z0-9_]*)\)", repl, self.text)
        if n:
            self.rewrites.append({"rule": "R10", "what": "%d constructor(s) used as function values eta-expanded into closures" % n})
        return self

    def insert_after(self, anchor, text, why):
        """Insert proof text (ghost code only) after the first occurrence of an anchor statement."""
        n = self.text.count(anchor)
        if n != 1:
            raise ExtractionError("%s: proof anchor %r occurs %d times" % (self.name, anchor, n))
        p = self.text.index(anchor) + len(anchor)
        self.text = self.text[:p] + "\n" + text + "\n" + self.text[p:]
        self.rewrites.append({"rule": "proof", "after": anchor, "what": why})
        return self

    def insert_before(self, anchor, text, why, nth=None):
        n = self.text.count(anchor)
        if (nth is None and n != 1) or (nth is not None and n < nth):
            raise ExtractionError("%s: proof anchor %r occurs %d times" % (self.name, anchor, n))
        p = -1
        for _ in range(nth or 1):
            p = self.text.index(anchor, p + 1)
        self.text = self.text[:p] + text + "\n" + self.text[p:]
        self.rewrites.append({"rule": "proof", "before": anchor, "what": why})
        return self

    def describe(self):
        return {
            "file": self.file, "item": self.name, "kind": self.kind,
            "lines": [self.line_start, self.line_end], "sha256": self.sha256,
            "rewrites": self.rewrites,
        }


class Extractor:
    def __init__(self, repo=None):
        self.repo = repo or REPO
        self.items = []
        self._cache = {}

    def read(self, file):
        if file not in self._cache:
            p = os.path.join(self.repo, file)
            if not os.path.exists(p):
                raise ExtractionError("anchor file missing: %s" % file)
            with open(p, encoding="utf-8") as f:
                self._cache[file] = f.read()
        return self._cache[file]

    def _find_item(self, src, keyword, name, after=None, nth=1):
        toks = code_tokens(src)
        start_off = 0
        if after is not None:
            p = src.find(after)
            if p < 0:
                raise ExtractionError("marker %r not found" % after)
            start_off = p
        seen = 0
        for idx, (kind, s, e) in enumerate(toks):
            if s < start_off:
                continue
            if kind == "ident" and src[s:e] == keyword and idx + 1 < len(toks):
                k2, s2, e2 = toks[idx + 1]
                if src[s2:e2] == name:
                    seen += 1
                    if seen == nth:
                        return toks, idx
        return toks, None

    def _item_span(self, src, toks, idx):
        # extend start backwards over visibility / qualifiers
        start = toks[idx][1]
        j = idx - 1
        while j >= 0:
            kind, s, e = toks[j]
            t = src[s:e]
            if kind == "ident" and t in ("pub", "const", "async", "unsafe", "super", "crate", "in", "self"):
                start = s
                j -= 1
            elif kind == "punct" and t in "()" and j >= 1:
                # part of pub(super)
                # only accept if a 'pub' precedes within 4 tokens
                window = [src[a:b] for _, a, b in toks[max(0, j - 4):j]]
                if "pub" in window:
                    start = s
                    j -= 1
                else:
                    break
            else:
                break
        # find body open '{' or ';'
        depth = 0
        for k in range(idx, len(toks)):
            kind, s, e = toks[k]
            if kind != "punct":
                continue
            ch = src[s]
            if ch in "([":
                depth += 1
            elif ch in ")]":
                depth -= 1
            elif ch == "{" and depth == 0:
                close = match_brace(src, toks, k)
                return start, toks[close][2]
            elif ch == ";" and depth == 0:
                return start, e
        raise ExtractionError("item end not found")

    def fn(self, file, name, after=None, nth=1):
        src = self.read(file)
        toks, idx = self._find_item(src, "fn", name, after, nth)
        if idx is None:
            raise ExtractionError("anchor lost: fn %s in %s" % (name, file))
        s, e = self._item_span(src, toks, idx)
        return Item(self, file, name, src[s:e], line_of(src, s), line_of(src, e), "fn")

    def type_item(self, file, keyword, name):
        src = self.read(file)
        toks, idx = self._find_item(src, keyword, name)
        if idx is None:
            raise ExtractionError("anchor lost: %s %s in %s" % (keyword, name, file))
        s, e = self._item_span(src, toks, idx)
        return Item(self, file, name, src[s:e], line_of(src, s), line_of(src, e), keyword)

    def impl(self, file, header):
        """Extract a whole `impl ... {}` block whose header text starts with `header`."""
        src = self.read(file)
        p = src.find(header)
        if p < 0:
            raise ExtractionError("anchor lost: %r in %s" % (header, file))
        toks = code_tokens(src)
        for k, (kind, s, e) in enumerate(toks):
            if s >= p and kind == "punct" and src[s] == "{":
                close = match_brace(src, toks, k)
                return Item(self, file, header, src[p:toks[close][2]], line_of(src, p),
                            line_of(src, toks[close][2]), "impl")
        raise ExtractionError("impl body not found: %s" % header)

    def slice(self, file, fn_name, start_lit, end_lit, name=None, after=None, nth=1,
              include_end=True, end_stmt=False):
        """Contiguous statements inside fn `fn_name`: from the first occurrence of start_lit to
        the end of the first following occurrence of end_lit.  The rest of the function is
        dropped (stated in the evidence)."""
        src = self.read(file)
        toks, idx = self._find_item(src, "fn", fn_name, after, nth)
        if idx is None:
            raise ExtractionError("anchor lost: fn %s in %s" % (fn_name, file))
        s, e = self._item_span(src, toks, idx)
        body = src[s:e]
        p = body.find(start_lit)
        if p < 0:
            raise ExtractionError("slice start lost: %r in fn %s (%s)" % (start_lit, fn_name, file))
        q = body.find(end_lit, p)
        if q < 0:
            raise ExtractionError("slice end lost: %r in fn %s (%s)" % (end_lit, fn_name, file))
        q2 = q + len(end_lit) if include_end else q
        if end_stmt:
            # extend to the `;` that ends the statement starting at end_lit
            rest = body[q:]
            rt = code_tokens(rest)
            depth = 0
            q2 = None
            for kind, s2, e2 in rt:
                if kind == "punct":
                    ch = rest[s2]
                    if ch in "([{":
                        depth += 1
                    elif ch in ")]}":
                        depth -= 1
                    elif ch == ";" and depth == 0:
                        q2 = q + e2
                        break
            if q2 is None:
                raise ExtractionError("slice end statement not terminated: %r" % end_lit)
        text = body[p:q2]
        it = Item(self, file, name or (fn_name + "_slice"), text, line_of(src, s + p),
                  line_of(src, s + q2), "slice")
        it.dropped = "rest of fn %s (lines %d-%d) outside the slice" % (
            fn_name, line_of(src, s), line_of(src, e))
        return it

    # -- R4: skeleton of an enum that lives in a dependency (read from the cargo registry copy that
    #        Cargo.lock pins): same variant and field names; every payload type outside `keep` becomes
    #        `OpaqueT` (an external_body struct), so extracted text can match on / construct the variants.
    def external_enum(self, crate, relpath, name, keep=(), rename=None):
        import glob
        cands = sorted(glob.glob(os.path.expanduser("~/.cargo/registry/src/*/%s/%s" % (crate, relpath))))
        if not cands:
            raise ExtractionError("dependency source not found: %s/%s" % (crate, relpath))
        src = open(cands[0], encoding="utf-8").read()
        toks, idx = self._find_item(src, "enum", name)
        if idx is None:
            raise ExtractionError("enum %s not found in %s" % (name, cands[0]))
        s, e = self._item_span(src, toks, idx)
        text = src[s:e]
        it = Item(self, "<registry>/%s/%s" % (crate, relpath), name, text, line_of(src, s), line_of(src, e), "enum")
        it.drop_attrs()
        body = it.text[it.text.index("{") + 1: it.text.rindex("}")]
        bt = code_tokens(body)
        # split variants at depth-0 commas
        variants, depth, start = [], 0, 0
        for kind, a, b in bt:
            ch = body[a:b]
            if kind == "punct":
                if ch in "([{<":
                    depth += 1
                elif ch in ")]}>":
                    if ch == ">" and body[a - 1] == "-":
                        continue
                    depth -= 1
                elif ch == "," and depth == 0:
                    variants.append(body[start:a].strip())
                    start = b
        if body[start:].strip():
            variants.append(body[start:].strip())
        keep = set(keep)

        def map_ty(t):
            t = " ".join(t.split())
            return t if t in keep else "OpaqueT"

        def split_top(sx):
            out, depth, st = [], 0, 0
            for i, ch in enumerate(sx):
                if ch in "([{<":
                    depth += 1
                elif ch in ")]}>":
                    depth -= 1
                elif ch == "," and depth == 0:
                    out.append(sx[st:i])
                    st = i + 1
            if sx[st:].strip():
                out.append(sx[st:])
            return [o.strip() for o in out if o.strip()]

        lines = []
        n_opaque = 0
        seen_names = set()
        for v in variants:
            v = re.sub(r"//[^\n]*", "", v).strip()
            m = re.match(r"([A-Za-z_][A-Za-z0-9_]*)\s*(.*)$", v, re.S)
            vname, rest = m.group(1), m.group(2).strip()
            if vname in seen_names:
                continue   # cfg-gated alternative of the same variant: the first (default-feature) one is kept
            seen_names.add(vname)
            if not rest:
                lines.append("    %s," % vname)
            elif rest.startswith("("):
                tys = [map_ty(t) for t in split_top(rest[1:rest.rindex(")")])]
                n_opaque += tys.count("OpaqueT")
                lines.append("    %s(%s)," % (vname, ", ".join(tys)))
            else:
                fields = []
                for f in split_top(rest[1:rest.rindex("}")]):
                    fn_, ty = f.split(":", 1)
                    ty = map_ty(ty.strip())
                    n_opaque += ty == "OpaqueT"
                    fname = fn_.strip().replace("pub ", "")
                    if fname.startswith("r#"):
                        fname = fname[2:] + "_"  # raw identifiers are not accepted by Verus; field is never named in extracted text
                    fields.append("%s: %s" % (fname, ty))
                lines.append("    %s { %s }," % (vname, ", ".join(fields)))
        it.text = "pub enum %s {\n%s\n}" % (rename or name, "\n".join(lines))
        it.rewrites.append({"rule": "R4", "what": "skeleton of dependency enum %s: %d variants kept by name, %d payload "
                            "types replaced by OpaqueT" % (name, len(variants), n_opaque)})
        it.variants = [re.match(r"\s*([A-Za-z_0-9]+)", l).group(1) for l in lines]
        return it

    def arm_body(self, file, fn_name, start_lit, name=None, after=None, nth=1):
        """Inner text of the `{ .. }` block that follows `=>` after the first occurrence of start_lit inside fn fn_name
        (the body of a match arm).  Everything else of the function is dropped (stated in the evidence)."""
        src = self.read(file)
        toks, idx = self._find_item(src, "fn", fn_name, after, nth)
        if idx is None:
            raise ExtractionError("anchor lost: fn %s in %s" % (fn_name, file))
        s, e = self._item_span(src, toks, idx)
        p = src.find(start_lit, s, e)
        if p < 0:
            raise ExtractionError("arm pattern lost: %r in fn %s (%s)" % (start_lit, fn_name, file))
        arrow = None
        for k, (kind, a, b) in enumerate(toks):
            if a >= p and kind == "punct" and src[a:a + 2] == "=>":
                arrow = k
                break
        if arrow is None:
            raise ExtractionError("arm `=>` not found after %r" % start_lit)
        for k in range(arrow, len(toks)):
            kind, a, b = toks[k]
            if kind == "punct" and src[a] == "{":
                close = match_brace(src, toks, k)
                it = Item(self, file, name or (fn_name + "_arm"), src[toks[k][2]:toks[close][1]],
                          line_of(src, toks[k][2]), line_of(src, toks[close][1]), "slice")
                it.dropped = "rest of fn %s (lines %d-%d) outside the match arm `%s`" % (
                    fn_name, line_of(src, s), line_of(src, e), start_lit)
                return it
        raise ExtractionError("arm block not found")

    def if_blocks(self, file, fn_name, if_lit, name=None, after=None, nth=1, need_else=True, whole=False):
        """(then_item, else_item): inner texts of the `{..}` blocks of the `if` whose text starts at if_lit inside fn fn_name.
        whole=True: one item, the complete `if COND { .. } [else { .. }]` statement, condition included."""
        src = self.read(file)
        toks, idx = self._find_item(src, "fn", fn_name, after, nth)
        if idx is None:
            raise ExtractionError("anchor lost: fn %s in %s" % (fn_name, file))
        s, e = self._item_span(src, toks, idx)
        p = src.find(if_lit, s, e)
        if p < 0:
            raise ExtractionError("if anchor lost: %r in fn %s (%s)" % (if_lit, fn_name, file))
        k0 = next(k for k, t in enumerate(toks) if t[1] >= p)
        kb = find_block_open(src, toks, k0)
        if kb is None:
            raise ExtractionError("then-block not found after %r" % if_lit)
        close = match_brace(src, toks, kb)
        out = []
        if whole:
            end = close
            if close + 2 < len(toks) and src[toks[close + 1][1]:toks[close + 1][2]] == "else" and src[toks[close + 2][1]] == "{":
                end = match_brace(src, toks, close + 2)
            it = Item(self, file, (name or fn_name) + "_if", src[p:toks[end][2]], line_of(src, p), line_of(src, toks[end][2]), "slice")
            it.dropped = "rest of fn %s outside the if statement at `%s`" % (fn_name, if_lit)
            return [it]
        then_it = Item(self, file, (name or fn_name) + "_then", src[toks[kb][2]:toks[close][1]], line_of(src, toks[kb][2]),
                       line_of(src, toks[close][1]), "slice")
        out.append(then_it)
        if close + 2 < len(toks) and src[toks[close + 1][1]:toks[close + 1][2]] == "else" and src[toks[close + 2][1]] == "{":
            c2 = match_brace(src, toks, close + 2)
            out.append(Item(self, file, (name or fn_name) + "_else", src[toks[close + 2][2]:toks[c2][1]],
                            line_of(src, toks[close + 2][2]), line_of(src, toks[c2][1]), "slice"))
        elif need_else:
            raise ExtractionError("else-block not found after %r" % if_lit)
        for it in out:
            it.dropped = "rest of fn %s outside the if/else at `%s`" % (fn_name, if_lit)
        return out

    def describe(self):
        return [i.describe() for i in self.items]
