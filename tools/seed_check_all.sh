#!/bin/bash
# usage: seed_check_all.sh <seeded dir name>  -- run EVERY property's quick check against a scratch copy with the seed applied: which units see the change at all
# (used to find registration gaps: a unit that catches the change but is not registered for the seed's property)
D=$1
SCR=/tmp/verif_seedall_$D; rm -rf "$SCR"; mkdir -p "$SCR"
rsync -a --exclude target --exclude .git --exclude web --exclude '*.snap' /repo/ "$SCR/"
(cd "$SCR" && patch -p1 -s -i "/verif/seeded/$D/patch.diff") || { echo "SEED $D: patch fails"; rm -rf "$SCR"; exit 0; }
echo "SEED $D (all properties):"
VERIF_REPO=$SCR VERIF_EVIDENCE_DIR=$SCR/_ev VERIF_NO_REPLAY=1 /verif/check --all 2>&1 | grep "failed obligation\|UNDECIDED" | sed 's/: .*//' | sort | uniq -c | sort -rn | head -12
rm -rf "$SCR"
