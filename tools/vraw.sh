#!/bin/sh
# development helper: build a unit and print Verus' rendered diagnostics
cd /verif && ./check --raw "$1" 2>&1 | python3 -c "
import sys,json
for l in sys.stdin:
    l=l.rstrip()
    if l.startswith('{'):
        try:
            d=json.loads(l); print(d.get('rendered') or d.get('message')) if d.get('level')=='error' else None
        except Exception: print(l[:300])
    else: print(l)
"
