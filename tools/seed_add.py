#!/usr/bin/env python3
"""Import a confirmed seeded change into /verif/seeded WITHOUT overwriting existing ones.

usage: seed_add.py <delivered dir (patch.diff, demo.sh, meta.json)> <Cnn> <round> "<result line of tools/seed_verify.sh>"
The change becomes seeded/<Cnn>-<next free number>/ ; meta.json gets property / round / confirmed_by_me.
"""
import json
import os
import shutil
import sys

ROOT = os.path.dirname(os.path.dirname(os.path.abspath(__file__)))
src, prop, rnd, result = sys.argv[1:5]
n = 1
while os.path.exists(os.path.join(ROOT, "seeded", "%s-%d" % (prop, n))):
    n += 1
dst = os.path.join(ROOT, "seeded", "%s-%d" % (prop, n))
os.makedirs(dst)
for f in os.listdir(src):
    if os.path.isfile(os.path.join(src, f)):
        shutil.copy(os.path.join(src, f), dst)
meta = json.load(open(os.path.join(dst, "meta.json")))
meta["property"] = prop
meta["round"] = rnd
meta["confirmed_by_me"] = {"procedure": "tools/seed_verify.sh <scratch worktree at /repo HEAD> <seed dir>: git apply patch; full test suite; demo.sh with the patch; demo.sh on clean HEAD",
                           "result": result}
json.dump(meta, open(os.path.join(dst, "meta.json"), "w"), indent=1, ensure_ascii=False)
print(dst)
