"""Regenerates the `seed ..` entries of selftest/mutations.json and detected_by / check_exit in every seeded/<id>/meta.json: each seeded change is applied to a scratch
copy of /repo's sources (never /repo) and its property's quick check is run against that copy.  Workers run in parallel, each with a scratch directory of its own
(build and evidence directories follow VERIF_EVIDENCE_DIR); mutations.json is written once, at the end.  Nothing else may edit /repo, the units, the registry or
mutations.json while this runs."""
import json
import os
import queue
import shutil
import subprocess
import threading

ROOT = '/verif'
SCR0 = '/tmp/verif_seedgen'
WORKERS = int(os.environ.get("VERIF_SEED_WORKERS", "5"))


def run_one(d, slot):
    pid = d.split('-')[0]
    scr = "%s_%d" % (SCR0, slot)
    if os.path.exists(scr):
        shutil.rmtree(scr)
    os.makedirs(scr)
    try:
        subprocess.check_call(["rsync", "-a", "--exclude", "target", "--exclude", ".git", "--exclude", "web", "--exclude", "*.snap", "/repo/", scr + "/"])
        pr = subprocess.run(["patch", "-p1", "-s", "-i", f"{ROOT}/seeded/{d}/patch.diff"], cwd=scr, capture_output=True, text=True)
        if pr.returncode != 0:
            return d, None, [], "PATCH FAILS " + pr.stdout[-200:]
        env = dict(os.environ, VERIF_REPO=scr, VERIF_EVIDENCE_DIR=scr + "/_ev", VERIF_NO_REPLAY="1")
        r = subprocess.run([ROOT + "/check", pid], env=env, capture_output=True, text=True)
        failed = sorted({l.split()[2].rstrip(":") for l in r.stdout.split("\n") if l.strip().startswith("failed obligation ")})
        und = [l for l in r.stdout.split("\n") if "UNDECIDED" in l][:2]
        return d, r.returncode, failed, " ".join(und)[:300]
    finally:
        shutil.rmtree(scr, ignore_errors=True)


def main():
    muts = json.load(open(ROOT + '/selftest/mutations.json'))
    muts = [m for m in muts if not m['name'].startswith('seed ')]
    seeds = sorted(os.listdir(ROOT + '/seeded'))
    results = {}
    q = queue.Queue()
    for d in seeds:
        q.put(d)

    def worker(slot):
        while True:
            try:
                d = q.get_nowait()
            except queue.Empty:
                return
            try:
                res = run_one(d, slot)
            except Exception as e:
                res = (d, None, [], "ERROR %r" % e)
            results[d] = res
            print(res[0], res[1], res[2], res[3], flush=True)
    ts = [threading.Thread(target=worker, args=(i,)) for i in range(WORKERS)]
    for t in ts:
        t.start()
    for t in ts:
        t.join()
    for d in seeds:
        _, rc, failed, note = results[d]
        if rc is None:
            continue
        pid = d.split('-')[0]
        meta = json.load(open(f"{ROOT}/seeded/{d}/meta.json"))
        meta["detected_by"] = failed if rc == 1 else []
        meta["check_exit"] = rc
        json.dump(meta, open(f"{ROOT}/seeded/{d}/meta.json", "w"), indent=1)
        if rc == 1:
            muts.append({"name": "seed " + d, "property": pid, "patch": f"seeded/{d}/patch.diff", "expect": failed[:3]})
    json.dump(muts, open(ROOT + '/selftest/mutations.json', 'w'), indent=1)


if __name__ == "__main__":
    main()
