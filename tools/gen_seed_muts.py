import json, os, subprocess, shutil, sys
ROOT='/verif'
SCR='/tmp/verif_seedgen'
muts=json.load(open(ROOT+'/selftest/mutations.json'))
muts=[m for m in muts if not m['name'].startswith('seed ')]
for d in sorted(os.listdir(ROOT+'/seeded')):
    pid=d.split('-')[0]
    if os.path.exists(SCR): shutil.rmtree(SCR)
    os.makedirs(SCR)
    subprocess.check_call(["rsync","-a","--exclude","target","--exclude",".git","--exclude","web","--exclude","*.snap","/repo/",SCR+"/"])
    pr=subprocess.run(["patch","-p1","-s","-i",f"{ROOT}/seeded/{d}/patch.diff"],cwd=SCR,capture_output=True,text=True)
    if pr.returncode!=0:
        print(d,"PATCH FAILS",pr.stdout[-200:]); continue
    env=dict(os.environ,VERIF_REPO=SCR,VERIF_EVIDENCE_DIR=SCR+"/_ev",VERIF_NO_REPLAY="1")
    r=subprocess.run([ROOT+"/check",pid],env=env,capture_output=True,text=True)
    failed=sorted({l.split()[2].rstrip(":") for l in r.stdout.split("\n") if l.strip().startswith("failed obligation ")})
    print(d,r.returncode,failed, [l for l in r.stdout.split("\n") if "UNDECIDED" in l][:2])
    meta=json.load(open(f"{ROOT}/seeded/{d}/meta.json"))
    meta["detected_by"]=failed if r.returncode==1 else []
    meta["check_exit"]=r.returncode
    json.dump(meta,open(f"{ROOT}/seeded/{d}/meta.json","w"),indent=1)
    if r.returncode==1:
        muts.append({"name":"seed "+d,"property":pid,"patch":f"seeded/{d}/patch.diff","expect":failed[:3]})
shutil.rmtree(SCR,ignore_errors=True)
json.dump(muts,open(ROOT+'/selftest/mutations.json','w'),indent=1)
