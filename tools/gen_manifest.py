#!/usr/bin/env python3
"""Writes MANIFEST.json from tools/registry.py (single source of truth for claimed properties)."""
import json
import os
import sys

HERE = os.path.dirname(os.path.abspath(__file__))
ROOT = os.path.dirname(HERE)
sys.path.insert(0, HERE)
import registry  # noqa: E402

checks = []
for pid, spec in registry.PROPERTIES.items():
    m = registry.MANIFEST_TEXT[pid]
    checks.append({
        "property_id": pid,
        "quick_cmd": "./check %s --tier quick" % pid,
        "thorough_cmd": "./check %s --tier thorough" % pid,
        "evidence_file": "evidence/%s.json" % pid,
        "replay_cmd_template": "./check --replay {path}",
        "engine": "contracts",
        "level_claimed": {"category": "proof", "text": m["level"], "design_ref": "DESIGN.md section 5, " + pid},
        "level_note": m["note"],
        "technique": m["technique"],
    })

na = list(registry.NOT_APPLICABLE)
listed = {x["property_id"] for x in na} | set(registry.PROPERTIES)
for line in open(os.path.join(ROOT, "properties.jsonl")):
    pid = json.loads(line)["id"]
    if pid not in listed:
        na.append({"property_id": pid, "reason": "not claimed in this revision: the units that would carry it are not built yet"})

manifest = {
    "version": 1,
    "setup_cmd": "./setup.sh",
    "hooks": {
        "guard": "none (no hook commits in /repo: Verus runs on text extracted from the working tree; Kani harnesses are "
                 "attached to a scratch copy of the working tree under cfg(kani), which Kani itself sets)",
        "enable": "not applicable - checks read /repo's working tree directly",
        "baseline_off_cmd": "cd /repo && cargo nextest run --workspace --no-fail-fast --tool-config-file pb:/w/lib/nextest.toml "
                            "--profile pb --test-threads 8 --offline",
        "source_commits": [],
        "add_only": True,
    },
    "engines": [
        {"name": "contracts", "path": "tools/check.py",
         "serves_properties": sorted(registry.PROPERTIES),
         "kind_free_text": "contract-based deductive verification: real functions re-extracted from /repo on every run "
                           "(tools/extract.py), contracts spliced from units/*.py, discharged by Verus/Z3; finite loop-free "
                           "tables additionally by Kani/CBMC inside a scratch copy of the real crate (thorough tier)"},
    ],
    "checks": checks,
    "not_applicable": na,
    "notes": "Exit codes: 0 all expected obligations discharged; 1 VIOLATION; 2 UNDECIDED (anchor lost / construct outside the "
             "verifier's dialect / rlimit) - never an alarm. known_findings.txt lists genuine defects recorded rather than repaired.",
}
with open(os.path.join(ROOT, "MANIFEST.json"), "w") as f:
    json.dump(manifest, f, indent=1)
print("MANIFEST.json: %d checks, %d not applicable" % (len(checks), len(registry.NOT_APPLICABLE)))
