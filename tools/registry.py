"""Which units carry which property (DESIGN.md section 5)."""

GLOBAL_ASSUMPTIONS = [
    "Verus/Z3 and Kani/CBMC are sound; rustc 1.91 (repo) and Verus' pinned rustc agree on the semantics of the extracted text",
    "the extractor copies text verbatim; every rewrite applied is listed under coverage.extracted_spans[].rewrites",
]

PROPERTIES = {}


def prop(pid, units, select=None, kani=None, not_covered=""):
    PROPERTIES[pid] = {"units": units, "select": select or {}, "kani": kani or [], "not_covered": not_covered}


def _all(f):
    return True


prop("C03", ["take_range", "sort_take", "limit_clause", "flatten_sort", "sort_infer", "lower_transform", "split_order", "sort_names", "dialect_flags", "group_take", "range_sugar", "pl_fold", "cid_inline", "rq_fold"],
     select={"rq_fold": lambda n: n.split(".", 1)[1] in ("FT1", "FT2", "FS1", "fold_transform.safety", "fold_column_sorts.safety"), "cid_inline": lambda n: n.split(".", 1)[1] in ("CP1", "CP2", "post_column_slice.safety", "post_column_slice.unwrap"), "pl_fold": lambda n: n.split(".", 1)[1] in ("PTK1", "PTK2", "PT1", "PS1", "PS2", "PR1", "PO1", "PE1", "PE2", "PX1") or n.endswith(".safety"), "range_sugar": lambda n: n.split(".", 1)[1] in ("ER1", "RR1", "RR2", "RR3", "RN1", "RT1", "RF1", "TK1", "TK2", "TK3", "EN1", "SK1", "SK2") or n.endswith(".safety"), "dialect_flags": lambda n: n.rsplit(".", 1)[1] in ("use_fetch", "limit_for_bare_offset"), "split_order": lambda n: n.split(".", 1)[1] in ("RO1", "RO2", "RO3", "reorder_should_swap.safety", "IC1", "IC2", "IC3") or n.split(".", 1)[1].startswith("SO1.Take.")},
     not_covered="alias_last_sorting and CidRedirector::redirect_sorts (how the sorting is re-expressed across cid redirects: folds over PQ with HashMap state); the driver loops of the sort inference (its step and the CTE record are under contract), "
                 "ensure_names for sort columns; the recursion of Flattener::fold_expr itself (the arms are proved against its contract)")

MANIFEST_TEXT = {}
NOT_APPLICABLE = []


def claim(pid, level, note, technique="Verus contracts on functions extracted from /repo each run"):
    MANIFEST_TEXT[pid] = {"level": level, "note": note, "technique": technique}


def na(pid, reason):
    NOT_APPLICABLE.append({"property_id": pid, "reason": reason})


claim("C03",
      "PARTIAL. Proved on the real code - the resolver's side of `sort persists`: in the Flattener, after a sort the order in effect downstream is that sort and "
      "the most recent one wins (flatten_sort FS1, FS3); a group with a non-empty key resets it - sorts upstream are dropped (FS2, FG1), the group's inner pipeline "
      "starts unsorted with the key as partition (FG2), nothing downstream inherits an order (FG3-4); every transform call inherits the sort in effect except that a "
      "join / append call carries none while the sort stays in effect after it (FT1-2). The take half, for all inputs and any number of takes: range_of_ranges composes any list of validated "
      "take ranges into exactly the position set that applying them one after another denotes (TR1), the OFFSET/LIMIT numbers "
      "computed in translate_select_pipeline select exactly that set (TR2), the ORDER BY emitted in front of a LIMIT is the sort embedded in the "
      "take when there is one and the inherited sorting otherwise (sort_take ST1-3), the emitted OFFSET / LIMIT / FETCH carry exactly those numbers and the "
      "ORDER BY list is kept in order (limit_clause LC2, LC2l, LC5), empty selections are encoded as LIMIT 0 and never as a "
      "negative limit (TR3o), no arithmetic panic (checked composition), and validate_take_range accepts exactly positive integer "
      "bounds (TR4). the SQL side of sort persistence, per step: every arm of SortingInference::fold_sql_transforms and the record of a CTE's sorting (sort_infer SI0-8, CS1-2; the driver loops, alias_last_sorting and the cid redirection are NOT under contract). lowering turns a `take` call into Take { range, partition = the call's partition, sort = the call's sort } and a `sort` call into Sort of the lowered keys (lower_transform LT1, LT6). the ORDER BY written after a SELECT's projection names a column by the name recorded for it at the split (`_expr_0` for a column whose own name another expression of the SELECT took), never by the column's own name (cid_inline CP1). NOT proved: the end-to-end sentence of C03.",
      "Trusted: unpack_as_int_literal / bound_as_int by contract (enum_as_inner accessors), Option::transpose/zip and Ord::min by "
      "assume_specification, that the database implements OFFSET/LIMIT; the slice drops the rest of translate_select_pipeline.")

for _pid, _why in [
    ("C11", "whole-history/concurrency property (schedules, call histories, hash seeds, file order): Kani has no threads, Verus would need "
            "permission-typed ghost state for every lock and a 2-safety argument over every HashMap traversal; no function contract decides it"),
    ("C15", "JSON (de)serialisation is serde-derive output configured by attributes; macro-generated code and format!/str::parse based "
            "Span/Ident impls are outside both verifiers' reach; a sliver would not decide the property"),
    ("C17", "token spans are produced inside chumsky combinator closures; no function boundary owns the span arithmetic, so no contract can state tiling"),
]:
    na(_pid, _why)

prop("C02", ["sql_prec", "static_eval", "operator_tpl", "literals", "lex_numbers", "cid_inline", "lex_end_expr", "prql_prec", "range_sugar", "lower_expr", "sql_case"], select={"operator_tpl": lambda n: not n.split(".", 1)[1].startswith("WFA."), "lower_expr": lambda n: n.split(".", 1)[1] in ("LO1", "LO1i", "LC1", "LC1i", "LA1", "LA1i", "LP1", "LL1", "MB1") or n.endswith(".safety"), "range_sugar": lambda n: n.split(".", 1)[1].startswith(("EB1.", "EB2.", "EU", "IN", "NB1", "EN1", "NS1", "RR", "RN1")) or n.endswith(".safety"), "prql_prec": lambda n: n.split(".", 1)[1].startswith(("PP1.", "FP1.")) or n.split(".", 1)[1] in ("NPF", "needs_parenthesis.safety", "BA1", "WW1"), "literals": lambda n: n.split(".", 1)[1] in ("TL1i", "TL1f", "NE1", "number_expr.safety")},
     not_covered="evaluation inside the database; dialect templates beyond the strengths they declare; sites that build SQL operands "
                 "without translate_operand (process_concat, process_array_in, try_into_between) are not yet under contract")
claim("C02",
      "PARTIAL-CORE. Proved for all inputs on the real functions: the parenthesisation rule (needs_parentheses = documented rule, NP1); "
      "translate_operand wraps exactly when the rule says so (TO1); translate_binary_operator passes each operand with the operator's own "
      "strength/associativity on the correct side (TB1); process_null emits IS [NOT] NULL on the operand that is not the null literal, "
      "whichever side null is on (NP5); wrap_in_parenthesis really wraps (WP2); compile-time folding (static_eval_rq_operator, "
      "static_eval_case, maybe_static_eval - verbatim; operator_tpl TP1: a `{x:N}` hole of a std.sql.prql template is translated as an operand of strength N, "
      "a `{x}` hole with the definition's binding_strength, which is what the NP4 rows assume) never changes the value an expression denotes under three-valued logic: not / and / or / eq / ne / neg / "
      "coalesce of literals (SE1), `case` reduced to its first TRUE branch or null, for any number of branches (SE2, loop invariant), ids and spans kept (SE3). "
      "a negative number literal is emitted as a unary minus on its magnitude, so no atom starts with a sign and `-` applied to it is parenthesized instead of forming `--` (literals TL1i, TL1f, NE1). Table obligations (one per row): for every constructible "
      "(parent operator, child class, side) the real strength/associativity tables never leave an operand bare where SQLite's documented "
      "grammar would re-associate it (NP2.*). the operators are expanded to the std functions they are documented to be, with the operand written left of the operator bound to the parameter that stands for it - the position is read from std.prql on every run, so the operand swap of `**` in expand_binary and `let pow = exponent column` must agree (range_sugar EB1.<op>, EB2.<op>, one pair per operator; new_binop, Expr::new, FuncCall::new_simple whole); unary `-` / `!` / `+` / `==name` (EU1-4); `x | in a..b` is x >= a && x <= b, an open bound imposes nothing (IN1-3). lowering keeps an operator's name and its operands in order, and the branches of a `case` in order with condition and value in place (lower_expr LO1, LC1). a `case` reaches SQL with every branch as a WHEN / THEN pair in order, a last `true => v` as ELSE and ELSE NULL otherwise - no branch is left out because of its value (sql_case CA1-3, the Case arm of translate_expr). NOT proved: that the database evaluates operators as documented.",
      "Oracle = SQLite's documented precedence table (the executable grammar here). translate_expr is external (uninterpreted result, "
      "Context state not modelled); sqlparser enums are mechanically generated skeletons; sqlparser's Display is trusted to print trees as written.")

prop("C01", ["split_order", "take_range", "operator_tpl", "vec_utils", "group_take", "flatten_sort", "sort_take", "sort_infer", "setop_pairs", "lower_transform", "positional_map", "sql_prec", "literal_rows", "lower_expr", "sql_relations", "sql_case", "static_eval", "lineage_except"],
     select={"static_eval": lambda n: n.split(".", 1)[1] in ("SE1", "SE1f", "SE1k", "SE2", "SE2i", "SE2x", "SE3", "SE3f") or n.endswith(".safety"),
             "lineage_except": lambda n: n.split(".", 1)[1] in ("LE1", "LE2", "LE3", "RN1", "RN2", "JL1", "JL2") or n.endswith(".safety"),
             "operator_tpl": lambda n: not n.split(".", 1)[1].startswith("WFA."), "sql_relations": lambda n: n.split(".", 1)[1] in ("JN1", "JN2", "translate_join.safety"), "sql_prec": lambda n: n.split(".", 1)[1] in ("NP5eq", "NP5ne", "process_null.safety", "NP6a", "NP6b", "try_into_between.safety", "try_into_between.precondition")
             # which rows a filter / a join condition keeps is the value of an expression: the parenthesisation rows of the binary operators (an operand printed bare must re-parse as that operand)
             # (the rows of the parent `||` are the recorded finding of C02 - sql_prec.NP2.Concat.* - and stay there: one finding, listed once)
             or (n.split(".", 1)[1].startswith("NP2.") and not n.split(".", 1)[1].startswith("NP2.Concat."))},
     not_covered="anchor_split cid redirection, preprocess (distinct/union recognition), lowering, flattening, the other pluck call sites of translate_select_pipeline (select / sort / take / join): hash-map threaded folds over three "
                 "IRs; a violation there is invisible to these contracts")
claim("C01",
      "PARTIAL (necessary conditions). Proved on the real functions, for all inputs: an operand of a binary operator is printed bare only where it re-parses as that operand (sql_prec NP2 rows, shared with C02: which rows a filter keeps is the value of its condition); is_split_required never lets a transform share a SELECT "
      "with a later transform that SQL's logical clause order would evaluate earlier (one clause per (transform, later transform) pair, SO1.*), "
      "its frame (SO2); a filter never follows a compute in one SELECT unless it is a HAVING (SO1c); can_materialize inlines a column only if "
      "its complexity is allowed by every requirement (CM1) with Complexity the total order Plain<NonGroup<Windowed<Aggregation (CX1); "
      "reorder() hoists a compute over a take only if it is row-local (RO1); composition of takes and LIMIT/OFFSET arithmetic (take_range); the "
      "empty-input values of the statement: translate_operator wraps an aggregate in COALESCE(.., default) exactly when its definition has an empty-input default and it "
      "is not used as a window function (TP2, TP3), and in every dialect module of std.sql.prql the effective definition of sum / any / all has the default 0 / FALSE / "
      "TRUE and count is COUNT(*) without a default (rows CO.<dialect>.<fn>, read from the file on every run); the WHERE / HAVING split of translate_select_pipeline: "
      "WHERE is built from exactly the filters before the first aggregate / union of the SELECT's pipeline, HAVING from those after it, in pipeline order, no filter "
      "left behind or lost (vec_utils WH1-4), on top of full contracts for the two helpers it uses - Vec::pluck is a stable partition by a fallible conversion "
      "(PL1-2, loop invariant PLI, any length) and Vec::break_up cuts at the first match (BU1-3); a grouped take becomes DISTINCT only for `take 1` without an order "
      "over a key that is the whole row, DISTINCT ON only for `take 1`, and otherwise a ROW_NUMBER() filter whose condition holds exactly for the positions kept "
      "(group_take DT1-4, RN1). the SQL back end's sort inference, one step per transform: FROM a CTE starts with the sorting recorded for it and leaves the record for its other consumers, Sort replaces it, Distinct / Aggregate clear it, Join keeps it unless it served a DISTINCT ON, Take / DISTINCT ON emit the ORDER BY in front of themselves, Select / Filter keep it; the record of a CTE is the sorting its pipeline ended with (sort_infer SI0-8, CS1-2); building a join call keeps the Flattener's sort (flatten_sort FT3). a join is replaced by EXCEPT / INTERSECT only if its condition is nothing but equalities (collect_equals, recursive, CE1-2) that pair top[i] with bottom[i] for every i and nothing else (equal_by_position, loop invariant EP1-3; recognition slices XR1-3, IR1-2). each PL transform call is lowered to the RQ transform of the same name over the lowered operands, appending nothing else but Computes and changing nothing already lowered (lower_transform LT0-9). "
      "lowering an expression to RQ is a homomorphism: literals, parameters, operator names, operand order, case branches, array elements, interpolation items survive, the recursive calls going through the function's own contract (lower_expr LL1 ... LF1: the whole of Lowerer::lower_expr except the Ident / All arms, lower_interpolations, str_lit, rq maybe_binop). a join's side becomes the SQL join operator that keeps the same rows - INNER / LEFT OUTER / RIGHT OUTER / FULL OUTER - with the join condition as its ON clause (sql_relations JN1-2, translate_join whole). NOT proved: the end-to-end sentence of C01 (semantic preservation of the whole compiler).",
      "Oracle: SQL's logical clause order. HashSet<String>, strum AsRefStr, contains_any, the filter/fold in can_materialize and "
      "infer_complexity_expr are trusted by contract; split_off_back's loop and anchor_split are not under contract.")

def _c04_split(name):
    lab = name.split(".", 1)[1]
    return (lab in ("IC1", "IC2", "IC3", "CM1", "CM2", "CM3", "SA1", "SA2", "RA1", "SO1c", "RO1", "RO2", "RO3", "CX1", "GR1", "GR2") or lab.startswith("SO1.Compute.")
            or lab in ("SO1.Take.Compute", "SO1.Distinct.Compute", "SO1.DistinctOn.Compute", "SO1.Aggregate.Compute") or lab.endswith(".safety"))


prop("C04", ["window_frame", "split_order", "lower_cols", "group_take", "lower_transform", "dialect_flags", "flatten_sort", "range_sugar", "pl_fold", "std_arity", "operator_tpl"], select={"operator_tpl": lambda n: n.split(".", 1)[1].startswith("WFA."), "std_arity": lambda n: n.split(".", 1)[1].startswith("SI."), "pl_fold": lambda n: n.split(".", 1)[1] in ("PTK1", "PTK2", "PT1", "PW1", "PR1", "PO1", "PS1", "PE1", "PE2") or n.endswith(".safety"), "range_sugar": lambda n: n.split(".", 1)[1] in ("ER1", "RR1", "RR2", "RR3", "RT1", "IL1", "IL2", "EN1") or n.split(".", 1)[1] in ("into_int.safety", "into_literal_range.safety", "try_restrict_range.safety", "expands_range.safety"), "flatten_sort": lambda n: n.split(".", 1)[1] in ("FT1", "FT2", "FT3", "FO1", "FO2", "flatten_call_slice.safety"), "dialect_flags": lambda n: n.rsplit(".", 1)[1] == "supports_distinct_on", "split_order": _c04_split, "lower_cols": lambda n: n.split(".", 1)[1] in ("DC5", "DC6") or n.endswith(".safety")},
     not_covered="that the Flattener's log entries are the expressions whose columns end up in the window (the recursion of fold_expr is external; its Sort / Group / Window arms and the call it builds are under contract in flatten_sort / window_frame), row-count preservation, the window of the ROW_NUMBER() column")
claim("C04",
      "PARTIAL. Proved on the real code, for all inputs: the window transform maps expanding / rolling:n / rows / range to exactly the documented "
      "(kind, start, end) with rolling:n = rows:(1-n)..0 and no overflow (WF1a-e); bound sign -> n PRECEDING / CURRENT ROW / n FOLLOWING, open "
      "bounds -> UNBOUNDED (WF2*); the frame clause is omitted only where SQL's implicit frame is the requested one (WF3a) and otherwise carries "
      "the requested bounds (WF3b); the Flattener applies a window's frame to its inner pipeline only - upstream transforms are folded with the "
      "frame in effect on entry (FL1-3); a windowed compute has complexity Windowed and is never inlined where a requirement allows less, a filter "
      "never shares a SELECT with a preceding compute unless it is a HAVING, and reorder() never hoists a windowed compute over a take "
      "(split_order IC1, CM1, SO1c, RO1); an expression that needs a window always becomes a Compute of its own carrying the Lowerer's current window, and an "
      "expression that does not carries none (lower_cols DC5-6); the column that an aggregation or a window function takes as argument may be at most a CASE expression of the same SELECT - a window function or an aggregation has to come from a sub-query (get_requirements' cap, split_order GR1-2); `take a..b` inside a group is DISTINCT / DISTINCT ON only when exactly the first row is kept and "
      "otherwise a filter on ROW_NUMBER() that holds exactly for positions a..b (group_take DT1-4, RN1). the Lowerer's current window while the columns of a derive / select are declared is exactly the transform call's window - frame kind and lowered bounds, the declared partition columns, the lowered sort - aggregated columns are declared with no window, and no window is left in effect after the transform; `take` gets the call's partition and sort (lower_transform LT1-4, LT9: the whole `match` of lower_pipeline over the transform kinds, with a ghost log of the declarations). the bounds of `rows:a..b` / `range:a..b` reach the frame computation as written: the range tuple is taken apart in order and a bound is open exactly for the null literal, closed exactly for an integer literal (range_sugar RR1-3, IL1-2, whole functions). in every dialect module the effective definition of each aggregate (min, max, sum, average, stddev, all, any, concat_array, count, count_distinct) is marked `window_frame=true`, so translate_windowed writes the frame the pipeline asks for (operator_tpl WFA.<fn>.<dialect> rows; the rows of `first` / `last` fail: recorded finding - FIRST_VALUE / LAST_VALUE are emitted without a frame); every std declaration is bound to the compiler-internal function of its own name - `rank_dense` to std.rank_dense and not to its neighbour's (std_arity SI.* rows, read from std.prql on every run). NOT proved: how the Flattener fills partition / sort / frame of a call from the enclosing window transform, row-count preservation.",
      "Flattener::fold_expr is external (ghost log of (expression, frame in effect)); slices drop the rest of resolve_special_func / "
      "translate_windowed; unpack_as_int_literal and sqlparser value construction are trusted by contract.")

prop("C18", ["dialect_select", "set_ops", "header_frame", "header_args", "token_filter", "resolve_guards", "stmt_newlines"],
     select={"set_ops": lambda n: n.split(".", 1)[1] in ("WR1", "WR2", "attach_ctes.safety", "attach_ctes.loop_exit"),
             # the header is a declaration (`prql`) of the root module: that a declaration does not change what OTHER names resolve to through the std redirect is Module::lookup's contract
             "resolve_guards": lambda n: n.split(".", 1)[1] in ("LK1", "LK2", "lookup.safety")},
     not_covered="that nothing behind the resolution depends on HOW the dialect was given is checked only as a syntactic frame (header_frame: the functions that read the `target` key of the query definition, the uses of translate_query's `dialect` parameter - a textual scan of the tree, not a proof about values), by the WITH clause being a function of the CTEs (set_ops WR1-2) and by the executed thorough sweep; 'the choice never changes which programs the resolver accepts' is argued from signatures only; that two dialect values "
                 "produce the same SQL is not needed (the same value reaches the generator on both routes)")
claim("C18",
      "Proved on the real code for all (option, header) pairs: sql::compile hands the option's dialect to the generator unchanged (CS1); "
      "compile_query uses the explicit option whatever the header says, without even consulting it (DS1a); with no option and no header the "
      "generic dialect (DS1b); with no option the header decides through Target::from_str, and an error there is returned (DS1c, DS1d); "
      "Target::from_str maps 'sql.any' to 'no dialect', 'sql.<name>' to the dialect strum knows under <name>, and everything else to an error "
      "(FS1-FS4); Target::default() is Sql(None) (TD1). the resolver side: the header is one more declaration (`prql`) of the root module, and Module::lookup returns the direct hits plus the hits through EVERY redirect whatever the module itself declares (resolve_guards LK1-2), so a header does not take std names away; the parser is handed every token but comments and line wraps (token_filter TF1). no kind of declaration needs a line break of its own in front of it, so the first declaration may stand directly under the header line (stmt_newlines ST1: a table over the combinator chain of module_contents). Equality of 'option x' and 'header x' follows: both routes yield the same Dialect value.",
      "strum's Dialect::from_str is an uninterpreted partial function (the name table itself is derive output); HashMap lookup of the header "
      "and translate_query are external; the resolver-independence clause rests on Module::lookup's contract (LK1-2), the token filter (TF1) and the table unit over the statement grammar (ST1; ST2 is a recorded finding): it is not proved end to end.")

prop("C14", ["prql_prec", "fmt_strings", "fmt_interp", "fmt_names", "interp_ident", "fmt_width", "lex_strings", "fmt_entry", "literals"],
     select={"literals": lambda n: n.split(".", 1)[1] in ("LN1", "LN2", "LN3", "number_literal_slice.safety")},
     not_covered="line breaking (SeparatedExprs), idempotence, the other arms of ExprKind::write (unary / range / call "
                 "operands inherit binary_position: the rows quantify over every inherited value), string escaping beyond the delimiter length")
claim("C14",
      "PARTIAL. Proved on the real code: the formatter's decision rule needs_parenthesis = its documented rule over the real strength / "
      "associativity / can_bind_left tables (NPF, BS1, AC1, CB1); write_within raises the context strength to the parent's (WW1); the Binary arm "
      "prints the left operand with the caller's unbound_expr flag and position Left, the right operand with position Right (BA1); one row per "
      "(parent position, child kind), for every inherited position / flag / outer context: no parentheses ==> the PRQL grammar re-attaches the child "
      "to the same parent (FP1.*; the grammar's Pratt table is extracted from parser/expr.rs and is itself checked against the documented table, "
      "PP1.*); identifiers are written bare only if they are not lexer keywords, in both ident writers (WI1/2, DI1/2, FP2.*, FP3.*); the string "
      "delimiter run is odd and longer than any quote run (QS2). the text printed inside a string literal (escape_all_except_quotes, loop proof) is one piece per character, each of which the lexer decodes to that character (fmt_strings EQ1); quote_string (whole function) prints `q^n s q^n` with n odd only when s neither starts nor ends with q and has no run of n q's, and otherwise escapes the double quotes - so the lexer reads the literal back as s (QS3). the text written for a string part of an s- / f-string - four single-character replacements, backslash first - contains no bare quote and no single brace, and undoing the lexer's escapes and then the interpolation parser's brace doubling gives back the part, for all strings (fmt_interp WI1-3; the theory of chained str::replace and of the two decoders is proved by induction in 12 lemmas). what the formatter prints is read back by the lexer character for character: an unescaped string opened by n quotes is the text up to the first run of n quotes VERBATIM - a raw CR LF included (lex_strings MQ1-2, ES1-4: the lexer side of the round trip). pl_to_prql hands the code generator's text out unchanged (fmt_entry FE1). a number the formatter prints as digits only is read back by the lexer as the integer it denotes when it fits i64 and as the float otherwise - `1e20` is printed as a run of digits and relies on exactly that (literals LN1-3: the lexer's number slice). NOT proved: line breaking, idempotence, whole-AST round trip.",
      "pr::Expr::write's use of needs_parenthesis and the non-binary arms' option handling are read off the text, not verified; chumsky's pratt() "
      "semantics assumed; regex / HashSet / Formatter / String operations are shims by contract.")

prop("C05", ["select_shape", "star_exclude", "limit_select", "star_cols", "sstring_cols", "lineage_except", "sort_infer", "select_cols", "positional_map", "dialect_flags", "rq_shape", "pipeline_types", "anchor_names", "literal_rows", "json_lits", "array_item_type"],
     select={"json_lits": lambda n: n.split(".", 1)[1] in ("JC1", "parse_json2.safety"), "anchor_names": lambda n: n.split(".", 1)[1] in ("LN1", "LN1i", "LN2", "EN1", "EN3") or n.endswith(".safety"), "pipeline_types": lambda n: n.split(".", 1)[1] in ("GL1", "GL2", "group_lineage.safety"), "rq_shape": lambda n: n.split(".", 1)[1] in ("AP1", "AP2", "append_single_arm.safety"), "dialect_flags": lambda n: n.rsplit(".", 1)[1] in ("column_exclude", "supports_zero_columns"), "positional_map": lambda n: n.split(".", 1)[1] in ("PM1", "PM3", "PM4", "PM5", "PM8", "activate_mapping.safety", "apply_active_mapping.safety", "select_arm.safety", "compute_arm.safety"), "sort_infer": lambda n: n.split(".", 1)[1] in ("SC1", "SC2", "SC3", "carry_sort_columns.safety", "carry_sort_columns.loop_exit")},
     not_covered="the rest of translate_wildcards (bookkeeping of the current star and of the exclusion sets), split_off_back / anchor_split behind extract_atomic, agreement "
                 "with the resolver's frame for every program, run-time expansion of `*`")
claim("C05",
      "PARTIAL. Proved on the real code: translate_select_item leaves a select item un-aliased only when the name SQL infers is EXACTLY the expected "
      "name, aliases it with the expected name otherwise, and gives an unnamed column a generated name no column carries (SS2a-c); the decision "
      "function of deduplicate_select_items drops an item only when it is an exact duplicate (same text, same quoting) of one kept before (DD1-3); "
      "helper sort columns are appended to CTE projections only and never reorder or remove what was selected (SS3a-b); translate_exclude names every unrequested "
      "column of a star in the dialect's EXCLUDE / EXCEPT clause (star_exclude TE2-3); extract_atomic leaves a SELECT that projects only requested columns alone and "
      "otherwise puts a SELECT of exactly the requested columns, in the requested order, on top (limit_select EA1-3); when a star follows, only the explicitly "
      "selected columns IMMEDIATELY before it that it includes are dropped from the projection - what stays is a prefix, in order (star_cols AB1-3, loop invariant); "
      "push_select expands `T.*` into every listed column of T, in order, after what was selected before (XA1, loop invariant). The obligation that such columns are excluded for EVERY dialect (TE1) fails for "
      "dialects without such a clause: recorded finding (`_expr_0` appears in the result on SQLite). the relation declared for `from s\"SELECT ..\"`: an item gets a name only if it is a bare identifier or has an alias (sstring_cols PN1-3), the names are declared once each in the order of first occurrence (SC1) - that they are the FIRST columns fails: recorded finding SC2 (a referenced column moves to the front); `select !{..}` removes a known column only for the same full identifier or a star over its input (lineage_except LE1-2). the columns the back end takes a pipeline to output (determine_select_columns, recursive, whole): the list of its last Select, partition ++ computed columns of its last Aggregate, the instance columns of From, what came before ++ the instance columns for Join, and otherwise what the pipeline in front outputs (select_cols DS1). NOT proved: wildcard / "
      "exclude translation, arity and order of the final projection for every program.",
      "translate_cid, the computation of the inferred name, HashMap / HashSet / NameGenerator are shims by contract; the iteration of retain() and "
      "the search of the Select in the CTE pipeline are dropped by the slices.")

prop("C10", ["resolve_guards", "name_lookup", "lineage_except", "frame_decls", "resolver_unwraps", "module_names", "lower_ident", "pl_fold", "lower_expr", "type_meet", "ident_kinds", "func_env"],
     select={"func_env": lambda n: n.split(".", 1)[1] in ("MF1", "MF2", "Resolver::materialize_head.safety"), "type_meet": lambda n: n.split(".", 1)[1] in ("IR1", "ST1", "ST2", "VT1") or n.split(".", 1)[1] in ("is_relation.safety", "is_super_type_of.safety", "is_super_type_of_opt.safety", "Resolver::validate_type.safety"),
             "lower_expr": lambda n: n.split(".", 1)[1] in ("LO2", "LO2i", "LT1", "LX1") or n.endswith("lower_expr.safety"),
             "lineage_except": lambda n: n.split(".", 1)[1] in ("IC1", "IC2", "LE1", "LE2", "LE3", "SH1", "shadow_one.safety", "JL1", "JL2", "join.safety", "IR1", "inline_ref.safety"),
             "resolver_unwraps": lambda n: n.split(".", 1)[1] in ("XA1", "WS1", "exclusion_arg.safety", "wildcard_self.safety")},
     not_covered="NS_INFER declarations (what resolve_ident_fallback infers), insert_frame (which columns a frame declares after select / "
                 "aggregate / group), resolve_ident_fallback inference, validate_expr_type (scalar where a relation is required): HashMap-of-Decl recursion; "
                 "a regression there is not detected by this check")
claim("C10",
      "PARTIAL (the decision points, not the whole resolver). Proved on the real code for all inputs: resolve_ident_core returns Err whenever the name has "
      "two or more candidates - as written (RG1) or in the default namespace (RG3) - and with exactly one candidate returns that candidate (RG2); "
      "Module::lookup returns the direct hits PLUS the hits through every redirect, for any number of redirects and whatever the direct lookup found "
      "(LK1, loop invariant LK2) - so a second candidate in another relation in scope is never missed; apply_args_to_closure returns Err whenever a named "
      "argument is not consumed by a named parameter of the callee (AA1-2); fold_function returns Err for more positional arguments than parameters, a "
      "function value for fewer, and evaluates only a saturated call (FA1-3). a name that can only be inferred is created from exactly one inference template, is unknown with none and an error with several (resolve_ident_fallback's decision, RF1-3). what one path finds in one module (lookup_in, whole function; the recursion into sub-modules goes through the contract of Module::lookup): `p.rest` finds the members `rest` of the declaration p - of a nested module what its own lookup finds, of layered modules what the INNERMOST layer that finds anything finds (loop invariant over the reversed stack: shadowing), of anything else nothing - qualified with p; an undeclared name finds nothing; a single declared name finds itself or its `_self` (name_lookup LI1-6; Ident::pop_front PF1). `select !{..}` and the inference of a column of a wildcard table compare names exactly (lineage_except LE1-3, IC1-2); a newly defined column takes its bare name away from an earlier column that carries it and leaves every other column alone (SH1, per column: the loop over the columns is not under contract); the frame of a join is the left frame followed by the right frame, every column exactly as it was, so a bare name both sides answer to stays ambiguous (lineage_except JL1-2, `join` whole); an argument without a frame where a relation is required is an error, and a relation's frame comes into scope as `this` / `that` (resolve_guards GA1-2). what one column of a frame declares: a named column its own name as that column, a star only the `_infer` placeholder of an input that exists in the frame, an unnamed column nothing - every other name untouched (frame_decls FD1-3). in lowering, an identifier that the resolver bound to a node becomes the column recorded for that node, or an error when none is recorded - the name is handed to the database as text only for an identifier without a target (the Ident arm of lower_expr, lower_ident LI1-4); Lowerer::lookup_cid changes nothing, finds a computed node's column or the input's column of that name, and is an error - not a panic - otherwise (LK0-2). the default PL fold, through which the resolver reaches every expression it does not handle itself, hands every sub-expression of a node to the folder - tuple and array items, case conditions and values, s- / f-string items, the name, the positional and the named arguments of a call, the body and the applied arguments of a function, every operand of every transform kind, range bounds, sort keys - so no name escapes resolution inside a nested node (pl_fold PK1 ... PX1, 16 whole functions, loops by invariant over a ghost visit log). what a resolved name becomes is decided by the kind of the declaration it is bound to: a column -> the identifier with that column's id as target, an inferred column -> the node that declares its input, a table -> its lineage and type under no alias, a type -> an error, an instance -> the tuple of its columns (ident_kinds IK1-7: the `match &entry.kind` of Resolver::fold_expr). the body of a called function is resolved with the module that DECLARES the function as the current module - the root module for a top-level function - so a free name of the body never binds to a declaration of the caller's module (func_env MF1-2). relation / scalar confusion in the resolver's type check: an argument is accepted only if nothing is expected, the expected type is a super type of the found one - two relations, or kinds that compare structurally - or, for a direct argument only, an array is expected and the argument is no function; the comparison of two function types has no such exception, so a scalar-valued function is not a `transform` (type_meet ST1-2, VT1, IR1; is_super_type_of, is_super_type_of_opt, validate_type, Ty::is_relation whole). relation / scalar confusion at lowering: an operator with a relation-typed operand, a bare tuple, an unapplied function or transform where a scalar is required is an error (lower_expr LO2, LT1, LX1, loop invariant over the operands). NOT proved: that an out-of-frame column has zero candidates (which declarations a frame inserts), relation / "
      "scalar confusion in the resolver (validate_expr_type).",
      "HashSet<Ident> is a shim with a ghost set view; in resolve_guards lookup_in is external (it is under contract in name_lookup, where Module::lookup is external: the mutual recursion is cut at the contracts, its termination is not proved); resolve_ident_wildcard, resolve_ident_fallback, ambiguous_error, expr_of_func are "
      "external; the drain loop over named parameters is replaced by its contract (stated in the evidence).")

prop("C09", ["ident_quote", "ids_names", "rel_names", "ident_regex", "dialect_flags", "literals", "select_shape", "interp_ident", "lex_end_expr", "sql_relations", "anchor_names", "sstring_cols", "literal_rows", "relation_literal", "lex_backtick"], select={"literal_rows": lambda n: n.split(".", 1)[1] in ("LR1", "LR1i"), "sstring_cols": lambda n: n.split(".", 1)[1] in ("PN1", "PN2", "PN3") or n.split(".", 1)[1].startswith("name_one_item"), "sql_relations": lambda n: n.split(".", 1)[1] in ("RA1", "RA2", "table_alias_slice.safety"), "lex_end_expr": lambda n: ".continues." in n, "select_shape": lambda n: n.split(".", 1)[1] in ("SS2a", "SS2b", "SS2c", "translate_select_item.safety"), "dialect_flags": lambda n: n.rsplit(".", 1)[1] == "ident_quote", "literals": lambda n: n.split(".", 1)[1] in ("FM1", "FM2", "format_slice.safety")},
     not_covered="content of the keyword tables; freshness of generated names against user names that are not registered yet; "
                 "the order in which assign_names visits the declarations (a user table named like a generated name is only protected if it is visited first)")
claim("C09",
      "PARTIAL. Proved on the real code: the name the lexer hands on for a backtick identifier is the whole text between the backticks (lex_backtick BT1-2: a table over the combinator chain of ident_part); translate_ident_part emits an identifier bare - unchanged - only if it is simple AND not a keyword "
      "(case-insensitively, general + dialect list) AND the dialect quotes conditionally, otherwise with the dialect's quote character and with every occurrence of that "
      "character in the name doubled, which is what a SQL lexer reads back as the name and what sqlparser's printer leaves alone (IQ1, IQ1q, IQ2-3, QI1); "
      "is_keyword is exactly membership of the upper-cased text in the keyword sets (IK1, DK1); ids are handed out strictly increasing and above every "
      "loaded id (IG1-3, SK1); names of one generator are pairwise distinct (NG1); at a pipeline split a re-declared column gets a name different from "
      "every name given at that split and the name is recorded (AS1a-c); every CTE gets a name different from the names of all CTEs named before it and every "
      "relation instance of a SELECT an alias different from those given before in that SELECT, while a name / alias that is present and unused is kept - the "
      "user's table keeps its name (rel_names AN1-4, RN1-4; partial correctness: termination of the two regenerate-until-unused loops is not proved). the pattern of valid_ident() - compiled from the source literal into a spec function on every run - matches only `*` and texts of lower-case letters, digits, `_`, `$` that do not start with a digit, and matches every ordinary lower-case name (ident_regex RX1-3, for all character sequences). a keyword or literal word ends only where a bare name cannot continue: letters (also outside ASCII), digits and `_` continue it, so a column called `importé` or `nullable` is lexed as that name (lex_end_expr EE.continues rows). the alias of a table in FROM is left out only when the table's own name - the whole last part, dots inside a quoted name included - is that alias, so `<alias>.<column>` references bind (sql_relations RA1-2). the name recorded for a column (AnchorContext::ensure_column_name, load_names, whole): a column that brings a name along from its relation is recorded under exactly that name, a recorded name is never replaced, a generated name goes only to a column without either, and naming one column touches no other (anchor_names EN1-5, LN1). the name declared for an un-aliased column of an s-string relation is the identifier's NAME, not its SQL rendering with quotes (sstring_cols PN1-3). the SELECT that defines the columns of a relation literal without rows aliases them with translate_ident_part, like every reference to them (relation_literal RL1-2). NOT proved: content of the keyword tables, capture of not-yet-registered "
      "user names.",
      "regex, HashSet, OnceLock tables, dyn DialectHandler, sqlparser Ident constructors, format! are shims by contract.")


def _c16_ids(name):
    lab = name.split(".", 1)[1]
    return lab in ("IG1", "IG2", "IG3", "SK1") or lab.startswith("gen.") or lab.startswith("skip.") or lab.endswith("IdGenerator::gen.safety") or "skip" in lab


prop("C16", ["toposort", "rq_tables", "ids_names", "lower_cols", "rq_shape", "lineage_except", "rq_fold", "flatten_sort", "table_instance", "pl_fold", "lower_expr", "lower_ident", "anchor_names", "ident_kinds", "lower_transform"], select={"ident_kinds": lambda n: n.split(".", 1)[1] in ("IK1", "IK2", "IK5", "FR1", "FR3") or n.endswith(".safety"), "anchor_names": lambda n: n.split(".", 1)[1] in ("RC1", "LN2", "EN1") or n.endswith(".safety"), "ids_names": _c16_ids, "flatten_sort": lambda n: n.split(".", 1)[1] in ("FO1", "FO2", "FT1", "FT3", "flatten_other_arm.safety")},
     not_covered="visibility of ids across joins / sub-pipelines (redirect_mappings over node_mapping: HashMap<usize, LoweredTarget>), lower_expr, "
                 "how push_select collects its columns, the rest of create_a_table_instance (which declaration it reads: table_instance TI1); toposort()'s Key->index map and driver loop")
claim("C16",
      "PARTIAL. Proved on the real code: Toposort::visit (the recursive DFS, verbatim) terminates, never panics, and on success keeps the invariant "
      "'every dependency of a listed node is listed EARLIER' while only appending to the order (TS0-TS4) - the 'declared earlier in the table list' "
      "clause for the order toposort_tables uses; lower_to_ir emits exactly the lowering buffer, in that order (RT1, RT2); column / table ids are "
      "handed out strictly increasing and above every loaded id, so no id is defined twice by the generators (IG1-3, SK1); declare_as_column (verbatim) returns the "
      "recorded column for an expression lowered before and emits nothing, otherwise appends at most ONE Compute, whose id is the generator's next (fresh) id, and "
      "records the node -> column mapping (lower_cols DC1-4); push_select closes the pipeline with a Select of exactly the ids of the declared columns, in order, "
      "and returns those columns (rq_shape PS1-3); a column merged by `append` keeps referring to the top pipeline's expression and is named by the top, else the bottom "
      "(AP1-2). the resolver side of what lowering assumes: a named column leaves a star exactly when it is qualified with the local name of the star's input (lineage_except LE3), a column inferred for a wildcard table is declared once per exact name and appended (IC1-2). the PL fold that TableDepsCollector uses to find the tables a declaration refers to visits every sub-expression of every node (pl_fold), so a table referenced only inside a case branch, an s-string or a join condition is still a dependency and is declared earlier. an expression is lowered to a column reference only where it needs a window (the column it is declared as, lower_expr LW1) or is an identifier bound to a node (lower_ident LI1-4); every other expression is rebuilt from its own parts (lower_expr LL1 ... LF1), so a value that shares its node id with a column emitted elsewhere is not turned into a reference to that column; looking a column up changes nothing in the Lowerer and answers from the current mapping (lower_ident LK0-2). NOT proved: visibility of "
      "every used id at its point of use (cid redirection through hash maps), select arity.",
      "toposort()'s HashMap index / outer loop, lower_table_decl and the Lowerer's node_mapping are not under contract.")

prop("C13", ["span_units", "compose_errors", "span_frame", "lower_expr", "ident_kinds", "parse_files", "lex_numbers"],
     select={"ident_kinds": lambda n: n.split(".", 1)[1] in ("FR2",), "lower_expr": lambda n: n.split(".", 1)[1] in ("LS1",),
             # WHO rejects a literal decides the units of the error's span: a number beyond f64 is rejected by the lexer, whose errors are located in characters (SU3)
             "lex_numbers": lambda n: n.split(".", 1)[1] in ("NB2",)},
     not_covered="ariadne rendering (the quoted line), multi-file source ids, resolver / SQL-generation errors (their spans are copied from parser spans)")
claim("C13",
      "PARTIAL. Proved on the real code: convert_lexer_error stores a span in CHARACTER units - the character positions of the byte offsets chumsky "
      "reported - with start <= end <= number of characters of the source and the given source id (SU3a-d, helpers inlined); compose_location reports "
      "exactly the line/column of span.start and span.end (SU1a-c); the parser's map_span yields the BYTE range of the tokens (SU2m). The linking "
      "obligation 'a byte offset inside the source is a character offset inside the source' (SU2) fails: recorded finding (panic / misplaced caret on "
      "non-ASCII sources). a span that ErrorMessages::composed hands on names a source of the tree (compose_errors CP4); the end-of-input span and every span of at least one token has start <= end (span_units SU2o); a number literal beyond the range of f64 never leaves the lexer as a literal (lex_numbers NB2), so its rejection is a LEXER error, located in character units by convert_lexer_error; with several files, every file is parsed with the id registered for its own path and the errors of the project are those of the files, in file order, uncompared (parse_files PF1-2: the loop of parser::parse; PS2-3: parse_source runs the parser under the same source id as the lexer and returns the lexer's errors followed by the parser's); FRAME (syntactic, whole tree): the functions that MAKE a span - a `Span { .. }` value, Span::new, span arithmetic - are the lexer's, the parser's and span.rs's, each with its contract or reason; everything else copies spans (span_frame SF.maker rows: a new maker needs a contract of its own); lowering keeps the span of every expression (lower_expr LS1), which is what errors of the SQL back end are located with. NOT proved: rendering, multi-file ids.",
      "UTF-8 text model (char_len <= byte_len, monotone prefix counts), chumsky's span contract, ariadne's get_offset_line and error constructors are "
      "assumed by contract.")


def _safety(name):
    lab = name.split(".", 1)[1]
    if lab.startswith("UA.") or lab.startswith("HP.") or lab.startswith("SF.") or lab.startswith("SI.") or lab.startswith("RS."):
        return True
    return lab.endswith(".safety") or lab.endswith(".overflow") or lab.endswith(".div0") or lab.endswith(".decreases") or lab.endswith(".unreachable") or lab.endswith(".unwrap") or lab.endswith(".index") or lab.endswith(".loop_exit") or lab.endswith(".precondition") \
        or lab in ("SU2", "TR3s", "TR3e", "TR3o", "SB1", "SB2", "TS0", "WF1b", "XA1", "LN1", "TU1", "TU2", "SR1", "SR2", "SQ1", "SQ2", "EN1", "EN2", "EN3", "DL1", "NB1", "WS1", "IP1", "NB2") \
        or name in ("tuple_helpers.TE1", "tuple_helpers.TM1", "tuple_helpers.TZ1", "tuple_helpers.EQ1", "tuple_helpers.EQ2", "tuple_helpers.TI1", "tuple_helpers.MB1", "literal_rows.LR2", "literal_rows.LR3", "literal_rows.LR3i", "setop_pairs.EP2", "pipeline_types.PT1", "pipeline_types.PT2", "pipeline_types.PW1", "pipeline_types.LD1", "pipeline_types.IR1", "pipeline_types.IR2", "lower_ident.LK0", "lower_ident.LK1", "lower_ident.LK2", "operator_tpl.TP4", "operator_tpl.TP4v")


_ALL_UNITS = ["take_range", "sort_take", "split_order", "window_frame", "dialect_select", "ident_quote", "ids_names", "toposort", "rq_tables",
              "select_shape", "span_units", "sql_prec", "prql_prec", "literals", "set_ops", "desugar", "resolve_guards", "lex_strings", "limit_clause", "static_eval", "operator_tpl", "rel_names", "lower_cols", "vec_utils", "group_take", "flatten_sort", "star_exclude", "std_arity", "limit_select", "rq_shape", "star_cols", "func_env", "json_lits", "cte_define", "type_meet", "fmt_strings", "concat_ops", "sstring_query", "sstring_cols", "lineage_except", "sort_infer", "setop_pairs", "setops_reach", "tuple_unpack", "resolver_unwraps", "name_lookup", "frame_decls", "select_cols", "lower_transform", "sort_names", "positional_map", "fmt_interp", "datetime_lit", "lex_numbers", "rq_fold", "dialect_flags", "cid_inline", "module_names", "compose_errors", "lex_end_expr", "fmt_names", "header_args", "literal_rows", "tuple_helpers", "pipeline_types", "lower_ident", "sql_templates", "interp_ident", "table_instance", "fmt_width", "span_frame", "range_sugar", "pl_fold", "lower_expr", "sql_relations", "anchor_names", "ident_kinds", "sql_case", "literal_frame", "relation_literal", "fmt_entry", "parse_files", "array_item_type", "token_filter", "slice_frame", "lex_backtick", "stmt_newlines"]


def _c12_split_order(n):
    # the rows that keep anything but a set operation out of the pipeline of a set operation are the precondition of the unreachable!() in translate_set_ops_pipeline
    lab = n.split(".", 1)[1]
    return _safety(n) or lab.startswith(("SO1.Union.", "SO1.Except.", "SO1.Intersect."))


prop("C12", _ALL_UNITS, select=dict({u: _safety for u in _ALL_UNITS}, split_order=_c12_split_order),
     not_covered="every function that is not under contract (~150 unwrap/expect sites, panic!(cannot find cid) in lookup_cid), "
                 "recursion depth, chumsky, time bounds")
claim("C12",
      "PARTIAL. C12 collects the panic-freedom and termination obligations of every real function under contract in the other units (plus the table rows std_arity UA.*: every unpack::<N> of resolve_special_func and every args[i] of "
      "static_eval_rq_operator matches the parameter count std.prql declares for that internal function; and the syntactic frame rows slice_frame RS.*: the functions that index a string or a slice by a range are the eight listed ones): Verus proves, per "
      "function, absence of arithmetic overflow, failed unwrap/expect, out-of-range index, reachable unreachable!() and (for Toposort::visit and every "
      "loop) termination, under preconditions derived from the call sites. Obligations whose failure is a recorded finding: the parser-span / "
      "character-offset mismatch that makes ErrorMessages::composed panic (span_units.SU2); the reachable todo!() of type_intersection (type_meet). Functions that are under contract only for C12: translate_query_sstring (std::str slicing on character boundaries), the tuple-type check of the parser (empty tuple), the two unreachable!() of translate_set_ops_pipeline together with the set-operation rows of the split table that keep anything else out of that pipeline, the std.not arm of the resolver, the names of a relation literal's columns. NOT proved: the rest of the code base, stack depth, time.",
      "Preconditions (validated take bounds, operator arities as the resolver builds them, id counters below usize::MAX) are assumptions about call sites "
      "that are not themselves verified; RQ/PL supplied as JSON can violate them.")

prop("C08", ["literals", "lex_strings", "json_lits", "concat_ops", "lex_numbers", "fmt_strings", "sql_prec", "static_eval", "lower_expr", "literal_frame"],
     select={"lower_expr": lambda n: n.split(".", 1)[1] in ("LL1", "LF1", "LF1i", "LSS1", "LIN1", "LIN1i", "SL1", "MB1") or n.endswith(".safety"),
             "static_eval": lambda n: n.split(".", 1)[1] in ("SE1", "SE1f", "static_eval_rq_operator.safety"),
             "sql_prec": lambda n: n.split(".", 1)[1].startswith("NP4.std_neg.") or n.split(".", 1)[1] == "NP4s.std_neg",
             "fmt_strings": lambda n: n.split(".", 1)[1] in ("EQ1", "EQI", "EQD", "escape_all_except_quotes.safety")},
     not_covered="float text round trip, date/time/interval literals, f-string lowering, relation literal rows, "
                 "dialects whose string literals treat backslash as an escape (finding F9: not under contract)")
claim("C08",
      "PARTIAL. Proved on the real code: translate_literal emits a string / raw string as SingleQuotedString whose payload is the content with every quote "
      "doubled - what a SQL lexer reads back as the content, and what sqlparser's printer leaves alone - for every dialect and every content (TL1s, TL1r); the SQL "
      "formatter is only run over text it tokenizes correctly, so formatting never alters a literal (FM1-2); integers / floats as the std rendering of the same value, booleans and null exactly (TL1i, TL1f, TL1b, "
      "TL1n); the lexer's number conversion yields the i64 the digits spell when they fit, otherwise the f64 they spell, and the 0 fallback only for "
      "text that is neither (LN1-3); the string lexer (parse_escape_sequence and the body of multi_quoted_string, verbatim): \\n \\r \\t \\b \\f \\\\ \\/ and the "
      "escaped quote denote the documented character and consume one character (ES2a), \\xHH and \\u{H..} with 1-6 digits denote the character with that code "
      "and consume exactly the escape (ES2b-c), an unescaped string opened by n quotes is the text up to the FIRST run of n quotes, verbatim (MQ2, any n, any "
      "length), every loop terminates and only moves forward (ES1, ES4, MQ1, MQL). JSON values of from_text become literals of the same value without panicking, for every number serde_json can hold (json_lits JL1-4). the operands handed to `||` / CONCAT for an f-string are exactly the flattened operands of the nested std.concat, in order (concat_ops CC1-2). a negative number literal is a unary minus, and the hole of the `neg` template demands more than the strength of a unary minus, so `-n` with n = -5 is `-(-5)` and never the comment `--5` (sql_prec NP4.std_neg rows, literals NE1); a comparison of two literals that is folded at compile time has the value the database would compute (static_eval SE1: same variant only - a string and a raw string are left to the database). lowering hands a literal on unchanged, turns an f-string into the left-nested std.concat of its items in order with every text item as the string literal of exactly that text (the empty f-string is ''), and keeps the text items of an s-string (lower_expr LL1, LF1, LSS1, LIN1). FRAME (syntactic, whole tree): the functions that construct a string literal are the lexer's and the listed few that make a string from something else; everything in between copies it (literal_frame LF.maker rows: a new maker needs a contract of its own). NOT proved: float formatting round trip, backslash-escaping dialects, "
      "content of escaped strings beyond one escape.",
      "sqlparser's Display (leaves doubled quotes alone - read in its source, validated by the thorough-tier sweep on SQLite) and sqlformat (white space only, given "
      "its precondition) are trusted; str::parse, str::replace and format! are uninterpreted; date/time/interval arms are not under contract.")

prop("C07", ["set_ops", "limit_clause", "literals", "rel_names", "cte_define", "sql_prec", "static_eval", "positional_map", "rq_fold", "dialect_flags", "literal_rows", "sql_templates", "operator_tpl", "sql_relations", "split_order", "sstring_cols", "sort_infer", "group_take", "relation_literal", "ident_quote"], select={"group_take": lambda n: n.split(".", 1)[1] in ("DT1", "DT2", "DT3", "DT4") or n.endswith(".safety"),
     # a quoted identifier is ONE syntactically valid identifier naming the intended object only if the quote character inside it is doubled (QI1) and the quoting rule is the dialect's (IQ rows)
     "ident_quote": lambda n: n.split(".", 1)[1] in ("QI1", "IQ1", "IQ1q", "IQ2", "IQ3", "quoted_ident.safety", "translate_ident_part.safety"), "sort_infer": lambda n: n.split(".", 1)[1] in ("SI2", "SI6", "SI7", "sort_step.safety") or n.split(".", 1)[1].startswith("SI"), "sstring_cols": lambda n: n.split(".", 1)[1] in ("PN1", "PN2", "PN3", "SC1") or n.endswith(".safety"), "split_order": lambda n: n.split(".", 1)[1].startswith(("SO1.Union.", "SO1.Except.", "SO1.Intersect.")) or n.split(".", 1)[1] in ("is_split_required.safety",), "operator_tpl": lambda n: n.split(".", 1)[1] in ("TP4", "TP4v", "operator_lookup_slice.safety", "operator_lookup_slice.unwrap"), "static_eval": lambda n: n.split(".", 1)[1] in ("SE2w", "SE2i", "SE2x", "static_eval_case.safety"), "literals": lambda n: n.split(".", 1)[1] in ("EI1", "expr_of_i64.safety", "TL1i", "TL1f", "NE1", "FM1"), "sql_prec": lambda n: n.split(".", 1)[1].startswith("NP4.std_neg") or n.endswith(".safety")},
     not_covered="scope of every table / column reference, per-dialect grammar, empty projections, relation alias uniqueness (assign_names), "
                 "which dialects besides SQLite have no bare OFFSET (MySQL, BigQuery: the handler table is assumed, not executable here)")
claim("C07",
      "PARTIAL (necessary conditions only). Proved on the real code: a quoted identifier doubles the quote character inside it and uses the dialect's quote (ident_quote QI1, IQ1-3: one valid identifier, naming the intended object); EXCEPT ALL is created only for dialects that have it - otherwise a compile error "
      "(unknown columns) or the anti-join fallback (EX1-3); the WITH clause is RECURSIVE iff at least one of its CTEs is a loop CTE, wherever it stands "
      "(WR1, loop invariant, any number of CTEs) and carries every CTE (WR2); the set quantifier is ALL iff duplicates are kept and DISTINCT is written "
      "only where the dialect accepts it (SQ1-2); the LIMIT / OFFSET / FETCH clause is one the dialect's grammar has: FETCH never without OFFSET and ORDER BY and "
      "never together with LIMIT (LC1, LC1f), a dialect without bare OFFSET gets a LIMIT meaning `no limit` whenever it gets an OFFSET (LC3, LC4), row counts are "
      "written as plain decimal digits (literals EI1); CTE names and relation aliases are unique in their scope (rel_names AN1-2, RN1-2); nested unary minus never produces the comment token `--` (sql_prec NP4.std_neg rows). a table compiled inline leaves its declaration NotYetDefined, so no reference is compiled to the name of a CTE that was never emitted (cte_define CI1); a `case` that survives constant folding has a WHEN branch - it is neither empty nor a lone `true => v`, which the generator would print as `CASE ELSE v END` (static_eval SE2w, inductive over the branch values); the default RQ fold hands every expression and column id of a node to the folder - array elements, case branches, s-string items, operator arguments, window bounds, sort keys - so CidCollector / CidRedirector see every column reference when a pipeline is split into CTEs (rq_fold FK1 ... FD1, loops by invariant); a FROM item is named by its alias unless its own name is the alias (sql_relations RA1-2); a CTE is marked recursive exactly when it is a loop, and a loop is `initial UNION ALL step` (TC1-2). nothing but a sort or another set operation stays in the SELECT of a set operation - a join, a filter, a compute after it starts a new SELECT over a CTE (split_order SO1.Union / Except / Intersect rows), which is what translate_set_ops_pipeline relies on; the columns declared for an s-string relation are names its SELECT list really produces (sstring_cols PN1-3, SC1). an explicit sort - the empty one that distinct() puts in front of a DISTINCT ON included - replaces the sorting in effect, so a DISTINCT ON is never preceded by an ORDER BY inherited from a CTE that does not start with its keys (sort_infer SI2). The sentence "
      "'every accepted program compiles to valid SQL of the dialect' is NOT what is proved.",
      "dialect flags and translate_cte are parameters / externals of the slices; the rest of except(), translate_query and "
      "translate_set_ops_pipeline is dropped.")

prop("C06", ["desugar", "sort_take", "func_env", "cte_define", "split_order", "sql_prec", "take_range", "rel_names", "group_take", "module_names", "select_shape", "positional_map", "flatten_sort"],
     select={"flatten_sort": lambda n: n.split(".", 1)[1] in ("FO1", "FO2", "FT1", "FT2", "FT3", "FS1", "FS3", "flatten_other_arm.safety", "flatten_call_slice.safety"),
             "positional_map": lambda n: n.split(".", 1)[1] in ("PM8", "PM5", "PM6", "PM6i", "PM7", "PM7i", "compute_arm.safety", "add_columns.safety"),
             "select_shape": lambda n: n.split(".", 1)[1] in ("SS2a", "SS2b", "SS2c", "translate_select_item.safety"),
             "split_order": lambda n: n.split(".", 1)[1] in ("RO1", "RO2", "RO3", "reorder.safety") or n.split(".", 1)[1].startswith(("SO1.Take.", "SO1.Distinct.", "SO1.DistinctOn.")),
             "take_range": lambda n: n.split(".", 1)[1] in ("TR1", "TR2", "TR2n", "SB1", "SB2", "TRI1", "OM1", "range_of_ranges.safety", "take_slice.safety"),
             "rel_names": lambda n: n.split(".", 1)[1] in ("AN1", "AN2", "AN3", "AN4", "name_one_decl.safety"),
             "sql_prec": lambda n: n.split(".", 1)[1] in ("NP6a", "NP6b", "TO1", "WP2", "try_into_between.safety", "translate_operand.safety")},
     not_covered="let / into naming, user-function beta-reduction (fold_function, apply_args_to_closure), named / default arguments, module paths "
                 "(Resolver over Module hash maps), prune_inputs, the CTE branch of compile_relation_instance")
claim("C06",
      "PARTIAL. Proved on the real code, for any length: desugar_pipeline turns `v | f1 | .. | fk` into fk(.. f1(v)) (DP1, loop invariant DP2); "
      "`all` turns the conditions of n consecutive filters into the single right-nested conjunction c1 AND (c2 AND ..) in pipeline order (FC1, FC2), "
      "which is true on a row exactly when every condition is (FC3, inductive lemma); the rewrite of `lo <= x AND x <= hi` into BETWEEN fires only for "
      "exactly that shape with one x and keeps lo / hi in place (NP6a-b, relevant to expression-to-function refactorings); the ORDER BY emitted "
      "with a LIMIT is the embedded or inherited sort (sort_take, relevant to naming a sorted prefix with let / into). applying a function binds parameter i to argument i and nothing else - env_of_closure, any number of parameters, loop invariant (func_env EC1-3). a compute is moved in front of a take only if it is row-local, so naming the `.. | take n` prefix with let cannot change what a following window or grouped take sees (split_order RO1-3). a let-table that is inlined as a sub-query for one reference stays definable as a CTE for the next one (cte_define CI1-3). consecutive takes merged into one LIMIT/OFFSET select exactly the rows that taking one after the other selects - which is what the let form of the same program executes (take_range TR1, TR2). every CTE gets a name different from the CTEs named before it, so a declaration moved into a module (`staging.t`) cannot shadow a table with the same short name (rel_names AN1-4). a take, a DISTINCT or a DISTINCT ON stays in one SELECT only with the transforms that SQL applies after it, so the SELECT boundary that `let` forces after such a prefix is one the inline form has as well (split_order SO1.Take / Distinct / DistinctOn rows; the pair Take-Distinct is a recorded finding); a column without a name of its own leaves a CTE under a generated alias that no column carries, never under the name its expression would infer (select_shape SS2a-c). the columns a set operation pairs by position include every computed column of the top pipeline, window functions too, so the inline form of `.. | derive {s = sum a} | append ..` pairs the same columns as the form whose prefix is named by `let` (positional_map PM8). a transform that is neither a sort nor a group leaves the sort in effect exactly as its input left it, so an identity `select` inserted after a `sort` changes nothing for the window functions and takes behind it (flatten_sort FO1-2, FT1-3). NOT proved: let/into, "
      "beta-reduction, modules.",
      "expand_expr, the call-node constructors and the meaning of std.and (three-valued AND) are externals / axioms.")
