#!/usr/bin/env python3
"""Driver: ./check <Cnn> [--tier quick|thorough] [--replay file] | ./check --unit <name> | --list

For a property: re-extract the real functions of every unit that carries it from /repo's
current working tree, splice the contracts, run Verus (and, in the thorough tier, the Kani
harnesses inside a scratch copy of the real crate), map the verifier's output to named
obligations, apply the verdict rules of DESIGN.md 4.3 and rewrite evidence/<id>.json.

exit 0  every expected obligation discharged (known findings printed as KNOWN-FINDING)
exit 1  an obligation that is expected to hold fails -> VIOLATION property=<id> replay=<path>
exit 2  UNDECIDED: anchor lost, construct outside the verifier's dialect, rlimit, tool crash
"""
import argparse
import concurrent.futures
import hashlib
import importlib
import json
import os
import re
import sys
import time
import traceback

HERE = os.path.dirname(os.path.abspath(__file__))
ROOT = os.path.dirname(HERE)
sys.path.insert(0, HERE)
sys.path.insert(0, os.path.join(ROOT, "units"))

import extract  # noqa: E402
import verus  # noqa: E402
import registry  # noqa: E402
import findings  # noqa: E402
import replaylib  # noqa: E402

# the three output directories can be redirected (used by the mutation self-test, which must not overwrite the evidence of the real tree)
_OUT = os.environ.get("VERIF_EVIDENCE_DIR")
BUILD = os.path.join(_OUT, "build") if _OUT else os.path.join(ROOT, "build")
EVID = _OUT or os.path.join(ROOT, "evidence")
REPLAYS = os.path.join(_OUT, "replays") if _OUT else os.path.join(ROOT, "replays")

CANARY = ("\nverus! {\nproof fn __verif_canary() ensures false {} // @CANARY\n"
          "#[verifier::external_body] pub fn verif_nondet_bool() -> bool { unimplemented!() }\n}\n")


def havoc_conditions(src, frontend):
    """R5-auto: a condition (`if COND {`, `while COND {`, match guard `if COND =>`) that contains a construct outside the
    verifier's dialect is replaced by an unconstrained bool.  Sound for proofs (both outcomes are explored) and it keeps
    an edited function decidable instead of UNDECIDED.  Returns (new_src, [descriptions]) or (None, [])."""
    bsrc = src.encode("utf-8")
    toks = extract.code_tokens(src)
    edits = []
    for fe in frontend:
        off = len(bsrc[:fe["byte_start"]].decode("utf-8", "ignore"))
        best = None
        for idx, (kind, s, e) in enumerate(toks):
            if s > off:
                break
            if kind == "ident" and src[s:e] in ("if", "while"):
                # condition ends at the block-opening brace or at `=>` (match guard), whichever comes first
                depth = 0
                end = None
                for j in range(idx + 1, len(toks)):
                    k2, s2, e2 = toks[j]
                    if k2 == "ident" and depth == 0 and src[s2:e2] in ("invariant", "invariant_except_break", "ensures", "decreases"):
                        end = s2   # a spliced loop contract follows the condition
                        break
                    if k2 != "punct":
                        continue
                    ch = src[s2]
                    if ch in "([":
                        depth += 1
                    elif ch in ")]":
                        depth -= 1
                        if depth < 0:
                            break
                    elif ch == "{" and depth == 0:
                        end = s2
                        break
                    elif ch == "=" and depth == 0 and src[s2:s2 + 2] == "=>":
                        end = s2
                        break
                    elif ch == ";" and depth == 0:
                        break
                if end is not None and e <= off < end and not src[e:end].strip().startswith("let "):
                    best = (e, end)
        if best and best not in [(a, b) for a, b, _ in edits]:
            edits.append((best[0], best[1], src[best[0]:best[1]].strip()))
    if not edits:
        return None, []
    out = src
    for a, b, txt in sorted(edits, reverse=True):
        out = out[:a] + " verif_nondet_bool() " + out[b:]
    return out, ["R5-auto: condition `%s` is outside the verifier's dialect; replaced by an unconstrained bool" % t[:160]
                 for _, _, t in edits]


def declare_unknown_callees(src, frontend, X, type_map=None):
    """R9-auto: a function the extracted text calls but the generated file does not define (`cannot find function NAME in this scope`) - typically a helper that an
    edit of the code under contract introduced - is declared with the signature it has in /repo (searched in the files the unit extracts from) as an external function
    WITHOUT a contract: its result is unconstrained.  Sound for proofs (every result is explored) and it keeps an edited function decidable instead of UNDECIDED.
    Types the unit replaces by a shim everywhere (its TYPE_MAP, e.g. HashSet<Ident> -> IdentSet) are replaced in these signatures too.
    Returns (new_src, [descriptions]) or (None, [])."""
    def shim_types(t):
        for a, b in (type_map or {}).items():
            t = t.replace(a, b)
        return t
    names = []
    for fe in frontend:
        m = re.search(r"cannot find function `(\w+)` in this scope", fe.get("message", ""))
        if m and m.group(1) not in names:
            names.append(m.group(1))
    methods = []
    for fe in frontend:
        m = re.search(r"no method named `(\w+)` found for (?:mutable reference|reference|struct) `(?:&mut |&)?(\w+)", fe.get("message", ""))
        if m and (m.group(1), m.group(2)) not in methods:
            methods.append((m.group(1), m.group(2)))
    if not names and not methods:
        return None, []
    files = []
    for it in X.items:
        if getattr(it, "file", None) and it.file not in files:
            files.append(it.file)
    decls, notes = [], []
    for nm in names:
        sig = None
        for f in files:
            try:
                text = X.read(f)
            except Exception:
                continue
            m = re.search(r"\bfn %s\s*(<[^>]*>)?\s*\(([^{;]*?)\)\s*(->\s*[^{;]+?)?\s*\{" % re.escape(nm), text, re.S)
            if m:
                sig = (m.group(1) or "", " ".join(m.group(2).split()), " ".join((m.group(3) or "").split()), f)
                break
        if sig is None:
            return None, []
        ret = re.sub(r"\bResult<([^,<>]+(?:<[^<>]*>)?)>", r"Result<\1, Error>", sig[2])
        decls.append("#[verifier::external_body] pub fn %s%s(%s) %s { unimplemented!() }" % (nm, sig[0], shim_types(sig[1]), shim_types(ret)))
        notes.append("R9-auto: callee `%s` (%s) is not under contract; declared external with its real signature and NO contract (any result)" % (nm, sig[3]))
    for nm, ty in methods:
        sig = None
        for f in files:
            try:
                text = X.read(f)
            except Exception:
                continue
            m = re.search(r"\bfn %s\s*(<[^>]*>)?\s*\((\s*&?(?:mut )?self[^{;]*?)\)\s*(->\s*[^{;]+?)?\s*\{" % re.escape(nm), text, re.S)
            if m:
                sig = (m.group(1) or "", " ".join(m.group(2).split()), " ".join((m.group(3) or "").split()), f)
                break
        if sig is None:
            return None, []
        ret = re.sub(r"\bResult<([^,<>]+(?:<[^<>]*>)?)>", r"Result<\1, Error>", sig[2])
        decls.append("impl %s { #[verifier::external_body] pub fn %s%s(%s) %s { unimplemented!() } }" % (ty, nm, sig[0], shim_types(sig[1]), shim_types(ret)))
        notes.append("R9-auto: method `%s::%s` (%s) is not under contract; declared external with its real signature and NO contract (any result, any change of `self`)" % (ty, nm, sig[3]))
    k = src.rfind("} // verus!")
    if k < 0:
        return None, []
    return src[:k] + "\n".join(decls) + "\n" + src[k:], notes


def havoc_typed_lets(src, frontend):
    """R5-auto (let): a statement `let NAME: TYPE = EXPR;` whose initialiser contains a construct outside the verifier's dialect (an iterator chain, a closure it cannot
    type) is replaced by `let NAME: TYPE = verif_nondet_val::<TYPE>();` - any value of that type.  Sound for proofs (every value is explored) and it keeps an edited
    function decidable.  Only lets WITH a type annotation qualify (the type must be known), and `let NAME = matches!(..);`, which is a bool.  Returns (new_src, [descriptions]) or (None, [])."""
    bsrc = src.encode("utf-8")
    toks = extract.code_tokens(src)
    edits = []
    for fe in frontend:
        off = len(bsrc[:fe["byte_start"]].decode("utf-8", "ignore"))
        best = None
        for idx, (kind, s, e) in enumerate(toks):
            if s > off:
                break
            if not (kind == "ident" and src[s:e] == "let"):
                continue
            # let [mut] NAME : TYPE = EXPR ;
            j = idx + 1
            if j < len(toks) and src[toks[j][1]:toks[j][2]] == "mut":
                j += 1
            if j + 1 >= len(toks) or toks[j][0] != "ident":
                continue
            typed = src[toks[j + 1][1]] == ":"
            # `let NAME = matches!(..);` has no annotation but its type is known: bool
            is_matches = (not typed and j + 3 < len(toks) and src[toks[j + 1][1]] == "=" and src[toks[j + 1][1]:toks[j + 1][1] + 2] != "=="
                          and src[toks[j + 2][1]:toks[j + 2][2]] == "matches" and src[toks[j + 3][1]] == "!")
            if not typed and not is_matches:
                continue
            name = src[toks[j][1]:toks[j][2]]
            depth, eq, end = 0, None, None
            for k in range(j + 2 if typed else j + 1, len(toks)):
                ch = src[toks[k][1]]
                if toks[k][0] != "punct":
                    continue
                if ch in "([{<" and not (ch == "<" and eq is not None):
                    depth += 1
                elif ch in ")]}>" and not (ch == ">" and eq is not None):
                    depth -= 1
                    if depth < 0:
                        break
                elif ch == "=" and depth == 0 and eq is None and src[toks[k][1]:toks[k][1] + 2] not in ("==", "=>"):
                    eq = k
                elif ch == ";" and depth == 0:
                    end = k
                    break
            if eq is None or end is None or not (toks[eq][2] <= off < toks[end][1]):
                continue
            ty = src[toks[j + 1][2]:toks[eq][1]].strip() if typed else "bool"
            best = (toks[eq][2], toks[end][1], name, ty)
        if best and best[:2] not in [(a, b) for a, b, _, _ in edits]:
            edits.append(best)
    if not edits:
        return None, []
    out = src
    for a, b, name, ty in sorted(edits, reverse=True):
        out = out[:a] + " verif_nondet_val::<%s>()" % ty + out[b:]
    if "fn verif_nondet_val" not in out:
        k = out.rfind("} // verus!")
        if k < 0:
            return None, []
        out = out[:k] + "#[verifier::external_body] pub fn verif_nondet_val<T>() -> T { unimplemented!() }\n" + out[k:]
    return out, ["R5-auto: initialiser of `let %s: %s` is outside the verifier's dialect; replaced by an unconstrained value of that type" % (n, t) for _, _, n, t in edits]


def _expand_or_pattern(pat):
    """All alternatives of a pattern with (possibly nested) `|`, in source order: `(A | B, true)` -> [`(A, true)`, `(B, true)`]."""
    depth, first = 0, None
    for k, ch in enumerate(pat):
        if ch in "([{":
            depth += 1
        elif ch in ")]}":
            depth -= 1
        elif ch == "|":
            first = (k, depth)
            break
    if first is None:
        return [pat.strip()]
    k, d = first
    # the element that contains this `|` at its own depth 0: from the previous `,` / opening bracket of depth d to the next `,` / closing bracket of depth d
    a, depth = 0, 0
    for i in range(k - 1, -1, -1):
        ch = pat[i]
        if ch in ")]}":
            depth += 1
        elif ch in "([{":
            if depth == 0:
                a = i + 1
                break
            depth -= 1
        elif ch == "," and depth == 0:
            a = i + 1
            break
    b, depth = len(pat), 0
    for i in range(k, len(pat)):
        ch = pat[i]
        if ch in "([{":
            depth += 1
        elif ch in ")]}":
            if depth == 0:
                b = i
                break
            depth -= 1
        elif ch == "," and depth == 0:
            b = i
            break
    alts, depth, last = [], 0, a
    for i in range(a, b):
        ch = pat[i]
        if ch in "([{":
            depth += 1
        elif ch in ")]}":
            depth -= 1
        elif ch == "|" and depth == 0:
            alts.append(pat[last:i])
            last = i + 1
    alts.append(pat[last:b])
    out = []
    for alt in alts:
        out += _expand_or_pattern(pat[:a] + " " + alt.strip() + pat[b:])
    return out


def split_or_guard_arms(src, frontend):
    """R16-auto: a match arm `P1 | P2 if G => E` (Verus: "match arm containing both an or-pattern (|) and a match-guard") is written as the arms
    `P1 if G => E, P2 if G => E` in the same place and order - what the or-pattern means when its alternatives bind no variables (checked: an alternative with a
    lower-case binding is refused).  Nested alternatives (`(A | B, true)`) are distributed.  Returns (new_src, [descriptions]) or (None, [])."""
    bsrc = src.encode("utf-8")
    edits = []
    for fe in frontend:
        if "or-pattern" not in fe.get("message", "") or "match-guard" not in fe.get("message", ""):
            continue
        a = len(bsrc[:fe["byte_start"]].decode("utf-8", "ignore"))
        b = len(bsrc[:fe["byte_end"]].decode("utf-8", "ignore"))
        pat = src[a:b]
        rest = src[b:]
        m = re.match(r"\s*if\b", rest)
        if not m:
            continue
        # guard: up to `=>` at depth 0; body: a block, or an expression up to the `,` / `}` of depth 0
        depth, g_end = 0, None
        for i in range(m.end(), len(rest)):
            ch = rest[i]
            if ch in "([{":
                depth += 1
            elif ch in ")]}":
                depth -= 1
            elif ch == "=" and depth == 0 and rest[i:i + 2] == "=>":
                g_end = i
                break
        if g_end is None:
            continue
        guard = rest[m.end():g_end].strip()
        j = g_end + 2
        while rest[j].isspace():
            j += 1
        depth, e_end = 0, None
        if rest[j] == "{":
            for i in range(j, len(rest)):
                if rest[i] == "{":
                    depth += 1
                elif rest[i] == "}":
                    depth -= 1
                    if depth == 0:
                        e_end = i + 1
                        break
            body = rest[j:e_end]
            k = e_end
            while rest[k].isspace():
                k += 1
            if rest[k] == ",":
                e_end = k + 1
        else:
            for i in range(j, len(rest)):
                ch = rest[i]
                if ch in "([{":
                    depth += 1
                elif ch in ")]}":
                    depth -= 1
                    if depth < 0:
                        e_end = i
                        break
                elif ch == "," and depth == 0:
                    e_end = i + 1
                    break
            body = rest[j:e_end].rstrip().rstrip(",")
        if e_end is None:
            continue
        alts = _expand_or_pattern(pat)
        # alternatives must not bind variables: every identifier is a path segment (upper-case start, or followed by `::`), `_`, or a literal
        binds = [w for alt in alts for w in re.findall(r"(?<![\w:])([a-z]\w*)(?!\w|\s*::)", alt) if w not in ("true", "false", "ref", "mut")]
        if binds or len(alts) < 2:
            continue
        arms = "".join("%s if %s => %s,\n        " % (alt, guard, body) for alt in alts)
        edits.append((a, b + e_end, arms, " ".join(pat.split())))
    if not edits:
        return None, []
    out = src
    for a, b, arms, _ in sorted(edits, reverse=True):
        out = out[:a] + arms + out[b:]
    return out, ["R16-auto: match arm `%s if ..` has an or-pattern and a guard; written as one guarded arm per alternative, same order" % t[:120] for _, _, _, t in edits]


def havoc_free_locals(src, frontend):
    """R17-auto: a slice that uses a local variable of the enclosing function which is defined OUTSIDE the slice (`cannot find value X in this scope`, X lower-case) gets
    `let X = verif_nondet_val();` at the start of the function the use is in: any value of whatever type the use requires (inferred by rustc).  Sound for proofs - every
    value is explored - and it keeps an edited function decidable.  Returns (new_src, [descriptions]) or (None, [])."""
    bsrc = src.encode("utf-8")
    toks = extract.code_tokens(src)
    edits = {}
    for fe in frontend:
        m = re.search(r"cannot find value `([a-z_][a-z0-9_]*)` in this scope", fe.get("message", ""))
        if not m:
            continue
        off = len(bsrc[:fe["byte_start"]].decode("utf-8", "ignore"))
        best = None
        for idx, (kind, a, b) in enumerate(toks):
            if a > off:
                break
            if kind == "ident" and src[a:b] == "fn":
                bo = extract.find_block_open(src, toks, idx)
                if bo is None:
                    continue
                bc = extract.match_brace(src, toks, bo)
                if toks[bo][2] <= off < toks[bc][1]:
                    best = toks[bo][2]
        if best is not None:
            edits.setdefault(best, [])
            if m.group(1) not in edits[best]:
                edits[best].append(m.group(1))
    if not edits:
        return None, []
    out = src
    fn_of = {}
    for pos in edits:
        head = src[:pos]
        mm = list(re.finditer(r"\bfn\s+(\w+)", head))
        fn_of[pos] = mm[-1].group(1) if mm else "?"
    for pos in sorted(edits, reverse=True):
        out = out[:pos] + "\n" + "".join("    let %s = verif_nondet_val();\n" % n for n in edits[pos]) + out[pos:]
    if "fn verif_nondet_val" not in out:
        k = out.rfind("} // verus!")
        if k < 0:
            return None, []
        out = out[:k] + "#[verifier::external_body] pub fn verif_nondet_val<T>() -> T { unimplemented!() }\n" + out[k:]
    return out, ["R17-auto: in fn %s: `%s` is a local of the enclosing function defined outside the slice; unconstrained value (a failed obligation of this function is then not decided)" % (fn_of[pos], n)
                 for pos, ns in edits.items() for n in ns]


def desugar_destructuring_assign(src):
    """R13-auto: a destructuring assignment statement `(A, B, ..) = EXPR;` (not supported by Verus) is desugared the way rustc does:
    `let (verif_d0, verif_d1, ..) = EXPR; A = verif_d0; B = verif_d1; ..`."""
    toks = extract.code_tokens(src)
    edits = []
    for i, (kind, s, e) in enumerate(toks):
        if not (kind == "punct" and src[s] == "(" and i > 0):
            continue
        prev = src[toks[i - 1][1]:toks[i - 1][2]]
        if prev not in (";", "{", "}"):
            continue
        try:
            close = extract.match_brace(src, toks, i, "(", ")")
        except Exception:
            continue
        if close + 1 >= len(toks):
            continue
        a, b = toks[close + 1][1], toks[close + 1][2]
        if src[a:a + 1] != "=" or src[a:a + 2] in ("==", "=>"):
            continue
        # left-hand side: places separated by top-level commas
        inner = src[toks[i][2]:toks[close][1]]
        if "(" in inner or "|" in inner or not inner.strip():
            continue
        places = [x.strip() for x in inner.split(",") if x.strip()]
        if len(places) < 2:
            continue
        # end of the statement
        depth = 0
        end = None
        for j in range(close + 2, len(toks)):
            if toks[j][0] != "punct":
                continue
            ch = src[toks[j][1]]
            if ch in "([{":
                depth += 1
            elif ch in ")]}":
                depth -= 1
                if depth < 0:
                    break
            elif ch == ";" and depth == 0:
                end = toks[j][2]
                break
        if end is None:
            continue
        names = ["verif_d%d" % k for k in range(len(places))]
        new = "let (%s) = %s %s" % (", ".join(names), src[toks[close + 1][2]:end - 1].strip(), "; " + " ".join("%s = %s;" % (p_, n) for p_, n in zip(places, names)))
        edits.append((s, end, new, "(%s) = .." % ", ".join(places)))
    notes = []
    for s0, e0, new, what in sorted(edits, reverse=True):
        src = src[:s0] + new + src[e0:]
        notes.append("R13-auto: destructuring assignment `%s` desugared to `let (verif_d..) = ..;` plus one assignment per place" % what)
    return src, notes


class Undecided(Exception):
    pass


def load_unit(name):
    return importlib.import_module(name)


def build_unit(name):
    """Extract + splice; returns dict(path, src, extractor, unit)."""
    unit = load_unit(name)
    X = extract.Extractor()
    src = unit.build(X)
    src, notes = desugar_destructuring_assign(src)
    src = src + CANARY
    os.makedirs(BUILD, exist_ok=True)
    path = os.path.join(BUILD, name + ".rs")
    with open(path, "w", encoding="utf-8") as f:
        f.write(src)
    return {"path": path, "src": src, "X": X, "unit": unit, "name": name, "auto_notes": notes}


ASSUME_TOKENS = ["assume(", "admit(", "external_body", "assume_specification", "verifier::external",
                 "#[verifier::external", "verifier(external"]


def scan_assumptions(src):
    """Mechanical scan of the generated file for anything that is assumption, not proof."""
    found = []
    for no, line in enumerate(src.split("\n"), 1):
        code = line.split("//")[0]
        for tok in ("assume(", "admit(", "external_body", "assume_specification", "external_type_specification",
                    "verifier::external]", "verifier::external_fn_specification", "uninterp"):
            if tok in code:
                found.append({"line": no, "token": tok.rstrip("(]"), "text": line.strip()[:160]})
    return found


UNTYPED_CLOSURE = __import__("re").compile(r"(?<![|&])\|\s*[a-z_][a-z0-9_]*(\s*,\s*[a-z_][a-z0-9_]*)*\s*\|(?!\s*->)(?!\|)")


def weak_functions(src):
    """Exec functions whose extracted text still contains a closure without a contract (untyped parameters, no `->`):
    the verifier knows nothing about such a closure's result, so a failed obligation in that function is UNDECIDED
    (limit of the dialect), never a violation."""
    weak = {}
    for a, b, nm in verus.fn_ranges(src):
        body = "\n".join(src.split("\n")[a - 1:b])
        m = UNTYPED_CLOSURE.search(body)
        if m:
            weak[nm] = m.group(0)
    return weak


def run_unit(name, tier):
    """Returns a result dict for one unit (never raises for verifier failures)."""
    t0 = time.time()
    out = {"unit": name, "undecided": None, "failures": [], "obligations": [], "functions": [],
           "assumptions": [], "extracted": [], "wall_s": 0.0, "smt_ms": 0, "cmd": "", "labels": []}
    try:
        b = build_unit(name)
    except extract.ExtractionError as e:
        out["undecided"] = "extraction: %s" % e
        return out
    except Exception as e:  # bug in a unit builder is a tool failure, not a verdict
        out["undecided"] = "unit builder crashed: %s\n%s" % (e, traceback.format_exc()[-1500:])
        return out
    unit = b["unit"]
    src = b["src"]
    out["extracted"] = b["X"].describe()
    out["dropped"] = [getattr(i, "dropped") for i in b["X"].items if hasattr(i, "dropped")]
    labels = verus.labels_in(src)
    labels.pop("CANARY", None)
    expected = list(getattr(unit, "LABELS", []))
    if hasattr(unit, "DYNAMIC_LABELS"):
        # rows generated from a data table of /repo (e.g. std.sql.prql): the list follows the table, the unit itself
        # guards the table's minimum content
        expected += list(unit.DYNAMIC_LABELS())
    out["labels"] = sorted(labels)
    missing = [l for l in expected if l not in labels]
    extra = [l for l in labels if l not in expected]
    if missing or extra:
        out["undecided"] = "labelled obligations differ from the unit's fixed list: missing=%s extra=%s" % (missing, extra)
        return out
    # assumption scan versus declared list
    scan = scan_assumptions(src[:-len(CANARY)])
    declared = getattr(unit, "ASSUMED", [])
    if any("keys" in a for a in declared):
        # keyed mode: every assume/external token must be claimed by an entry through a name on the token's own or next lines
        lines = src.split("\n")
        undeclared = []
        for t in scan:
            ctx = " ".join(lines[t["line"] - 1:t["line"] + 2])
            if not any(k in ctx for a in declared for k in a.get("keys", [])):
                undeclared.append({"line": t["line"], "text": ctx.strip()[:160]})
        out["assumption_scan"] = {"found": len(scan), "undeclared": len(undeclared)}
        if undeclared:
            out["undecided"] = "assumption scan: %d assume/external token(s) not covered by the unit's declared assumptions: %s" % (
                len(undeclared), json.dumps(undeclared)[:1500])
            return out
    else:
        n_declared = sum(a.get("count", 1) for a in declared)
        out["assumption_scan"] = {"found": len(scan), "declared": n_declared}
        if len(scan) != n_declared:
            out["undecided"] = "assumption scan: %d assume/external tokens in generated file, unit declares %d: %s" % (
                len(scan), n_declared, json.dumps(scan)[:1500])
            return out
    out["assumptions"] = [a["what"] for a in declared] + list(getattr(unit, "TRUSTED", []))
    r = verus.run(b["path"], rlimit=getattr(unit, "RLIMIT", 30))
    out["auto_rewrites"] = list(b.get("auto_notes", []))
    for _ in range(4):
        if not (r["undecided"] and r.get("frontend")):
            break
        cur = open(b["path"], encoding="utf-8").read()
        new_src, notes = declare_unknown_callees(cur, r["frontend"], b["X"], getattr(unit, "TYPE_MAP", None))
        if new_src is None:
            new_src, notes = split_or_guard_arms(cur, r["frontend"])
        if new_src is None:
            new_src, notes = havoc_conditions(cur, r["frontend"])
        if new_src is None:
            new_src, notes = havoc_typed_lets(cur, r["frontend"])
        if new_src is None:
            new_src, notes = havoc_free_locals(cur, r["frontend"])
        if new_src is None:
            break
        with open(b["path"], "w", encoding="utf-8") as f:
            f.write(new_src)
        out["auto_rewrites"] += notes
        r = verus.run(b["path"], rlimit=getattr(unit, "RLIMIT", 30))
    out["cmd"] = r["cmd"]
    out["smt_ms"] = r.get("smt_ms", 0)
    out["verus_total_ms"] = r.get("total_ms", 0)
    if r["undecided"]:
        out["undecided"] = "verus: " + r["undecided"]
        return out
    # canary: must be the one and only way to prove false
    canary = [f for f in r["failures"] if f["fn"] == "__verif_canary"]
    if not canary:
        out["undecided"] = "vacuity guard: `ensures false` canary verified (prelude is inconsistent)"
        return out
    fails = [f for f in r["failures"] if f["fn"] != "__verif_canary"]
    weak = weak_functions(open(b["path"], encoding="utf-8").read())
    for note in out["auto_rewrites"]:
        mm = re.match(r"R17-auto: in fn (\w+): `(\w+)`", note)
        if mm:
            weak.setdefault(mm.group(1), "free local `%s` of the enclosing function replaced by an unconstrained value" % mm.group(2))
    lost = [f for f in fails if f["fn"] in weak]
    if lost:
        out["undecided"] = ("function(s) %s have an unconstrained part (%s): failed obligations there are not decided" %
                            (sorted({f["fn"] for f in lost}), "; ".join(sorted({weak[f["fn"]] for f in lost}))))
        return out
    out["functions"] = [f for f in r["functions"] if f["function"] != "__verif_canary"]
    exec_fns = [f["function"] for f in out["functions"]]
    exp_fns = list(getattr(unit, "FUNCTIONS", []))
    # a helper the unit declares optional is expected only while the code under contract still has it (the generated text then defines it)
    gen_text = open(b["path"], encoding="utf-8").read()
    exp_fns = [f for f in exp_fns if f not in getattr(unit, "OPTIONAL_FUNCTIONS", []) or re.search(r"\bfn %s\b" % re.escape(f), gen_text)]
    lost = [f for f in exp_fns if f not in exec_fns]
    if lost:
        out["undecided"] = "functions expected under contract were not verified by Verus: %s" % lost
        return out
    # obligations = one safety/termination obligation per verified function + one per labelled clause
    failed_names = {}
    for f in fails:
        failed_names.setdefault(f["obligation"], []).append(f)
    obl = []
    seen_fn = set()
    for fn in out["functions"]:
        if fn.get("mode") != "exec":
            continue  # proof/spec functions only carry the labelled clauses they contain
        nm = "%s.%s.safety" % (name, fn["path"].split("::", 1)[-1])
        if nm in seen_fn:
            continue
        seen_fn.add(nm)
        unl = [f for f in fails if f["fn"] == fn["function"] and not f["label"]]
        if not fn["success"] and not [f for f in fails if f["fn"] == fn["function"]]:
            unl = [{"note": "verus marked the function as failed"}]
        obl.append({"name": nm, "kind": "function body: panic-freedom, overflow, callee preconditions, "
                    "termination, unlabelled postconditions", "backend": "verus/z3",
                    "status": "failed" if unl else "discharged", "time_us": fn["time_us"], "rlimit": fn["rlimit"]})
    for lab in sorted(labels):
        fl = [f for f in fails if f["label"] == lab]
        obl.append({"name": "%s.%s" % (name, lab), "kind": "labelled clause", "backend": "verus/z3",
                    "status": "failed" if fl else "discharged"})
    out["obligations"] = obl
    for f in fails:
        f["unit"] = name
        f["obligation"] = "%s.%s" % (name, f["label"]) if f["label"] else "%s.%s.%s" % (name, f["fn"], f["kind"])
    out["failures"] = fails
    out["wall_s"] = time.time() - t0
    out["verified_count"] = r["verified"]
    return out


def write_evidence(pid, tier, seed, t0, units, kani, violations, known, undecided, samples, sweeps=()):
    obligations = []
    for u in units:
        obligations += u["obligations"]
    for k in kani:
        obligations += k.get("obligations", [])
    discharged = [o for o in obligations if o["status"] == "discharged"]
    bounded = [o for o in obligations if o["status"] == "bounded-ok"]
    known_names = {k["obligation"] for k in known}
    # an unlabelled failure (`<unit>.<fn>.<kind>`) shows up in the table as the function's own row `<unit>.<path::fn>.safety`
    for o in obligations:
        if o["status"] == "failed" and o["name"].endswith(".safety"):
            unit_name, rest = o["name"].split(".", 1)
            fn_name = rest[:-len(".safety")].split("::")[-1]
            if any(k.startswith("%s.%s." % (unit_name, fn_name)) for k in list(known_names)):
                known_names.add(o["name"])
    # obligations matched by a recorded finding are reported (known_findings_matched / failed) but not claimed as proved
    counted = [o for o in obligations if o["status"] in ("discharged", "failed") and o["name"] not in known_names]
    assumptions = []
    for u in units:
        for a in u["assumptions"]:
            if a not in assumptions:
                assumptions.append(a)
        for d in u.get("dropped", []):
            assumptions.append("slice: " + d)
    for k in kani:
        for a in k.get("assumptions", []):
            if a not in assumptions:
                assumptions.append(a)
    assumptions += registry.GLOBAL_ASSUMPTIONS
    spec = registry.PROPERTIES[pid]
    cov = {
        "obligations": len(counted),
        "discharged": len(discharged),
        "checker_cmd": "; ".join([u["cmd"] for u in units if u["cmd"]] + [k["cmd"] for k in kani if k.get("cmd")]),
        "trusted_base": ["verus 0.2026.09.13 + z3 (the only back end: no Kani / CBMC harness is registered, nothing is bounded)",
                         "tools/extract.py tokenizer and rewrite rules R1-R13 (every application logged below under extracted_spans[].rewrites)",
                         "thorough tier only: python3 sqlite3 (3.40) as the executing database of the witness sweeps, which are not counted as proof"],
        # exec functions only: Verus also reports consts and spec / proof functions of the prelude, which are not code of /repo under contract
        "functions_under_contract": sorted({"%s::%s" % (u["unit"], f["function"]) for u in units for f in u["functions"]
                                            if f.get("mode", "exec") == "exec" and not f["function"].isupper()}),
        "obligation_list": obligations,
        "bounded_standins": [o["name"] for o in bounded],
        "failed": [o["name"] for o in obligations if o["status"] == "failed"],
        "known_findings_matched": known,
        "undecided": undecided,
        "solver_time_ms": sum(u["smt_ms"] for u in units),
        "kani_time_s": sum(k.get("wall_s", 0) for k in kani),
        "extracted_spans": [e for u in units for e in u["extracted"]],
        "assumption_scan": {u["unit"]: u.get("assumption_scan") for u in units},
        "samples": samples[:12],
        "witness_sweep": [{"unit": w["unit"], "inputs_executed_on_real_compiler": w["executed"], "disagreements": len(w["failing"]),
                           "wall_s": w.get("wall_s"), "what": w.get("what", ""), "counted_as_proof": False} for w in sweeps],
        "not_covered": spec.get("not_covered", ""),
        "evaluations": len(obligations),
        "distinct_nontrivial": len({o["name"] for o in obligations}),
        "rule": "one case per named proof obligation (labelled contract clause, per-function safety/termination "
                "obligation, or Kani harness); all are distinct by name and non-trivial (vacuity canary + witnesses)",
    }
    ev = {
        "property_id": pid, "tier": tier, "seed": seed, "level": "proof",
        "coverage": cov, "assumptions": assumptions,
        "wall_s": round(time.time() - t0, 2), "violations": len(violations),
    }
    os.makedirs(EVID, exist_ok=True)
    with open(os.path.join(EVID, pid + ".json"), "w") as f:
        json.dump(ev, f, indent=1, default=str)
    return ev


def check_property(pid, tier, seed):
    t0 = time.time()
    spec = registry.PROPERTIES[pid]
    unit_names = spec["units"]
    with concurrent.futures.ThreadPoolExecutor(max_workers=min(4, len(unit_names))) as ex:
        units = list(ex.map(lambda n: run_unit(n, tier), unit_names))
    kani = []
    if tier == "thorough" and spec.get("kani"):
        import kani_real
        kani = kani_real.run_harness_sets(spec["kani"])
    # thorough tier: witness sweep -- the units' witness templates are instantiated over a stated grid and EXECUTED on the real compiler
    # built from the working tree (and on SQLite where results matter).  This validates the assumed contracts / shims and the oracles by
    # execution; it is never counted as proof.  A disagreement is reported under the obligation the witness belongs to.
    sweeps = []
    if tier == "thorough" and not os.environ.get("VERIF_NO_REPLAY"):
        for n in unit_names:
            mod = sys.modules.get(n) or __import__(n)
            if hasattr(mod, "sweep"):
                t1 = time.time()
                try:
                    recs = mod.sweep()
                except Exception as e:
                    sweeps.append({"unit": n, "error": repr(e), "executed": 0, "failing": []})
                    continue
                sweeps.append({"unit": n, "executed": len(recs), "failing": [r for r in recs if r.get("failing")], "wall_s": round(time.time() - t1, 1),
                               "what": getattr(mod, "SWEEP_DOC", "")})
    undecided = [u["unit"] + ": " + u["undecided"] for u in units if u["undecided"]]
    undecided += ["%s: witness sweep crashed: %s" % (w["unit"], w["error"]) for w in sweeps if w.get("error")]
    undecided += [k["name"] + ": " + k["undecided"] for k in kani if k.get("undecided")]
    # failures relevant to this property
    fails = []
    undecided_extra = []
    for u in units:
        sel = spec.get("select", {}).get(u["unit"])
        for f in u["failures"]:
            if sel is None or sel(f["obligation"]):
                fails.append(f)
            elif (not f.get("label") or f.get("kind") in ("invariant_end", "invariant_entry")) and any(o["name"].endswith("%s.safety" % f["fn"]) and sel(o["name"]) for o in u["obligations"]):
                # an unlabelled proof step (a loop invariant, an assertion) of a function whose safety row carries this property no longer holds: the verifier then
                # assumes it for the rest of the body, so "no panic" is not decided for that function - neither an alarm nor a pass
                undecided_extra.append("%s: a proof step of fn %s that this property does not select fails (%s %s: %s); the function's safety obligation rests on it and is not decided" % (u["unit"], f["fn"], f["kind"], f.get("label") or "", f.get("text", "")[:120]))
        if sel is not None:
            # only the obligations that carry this property are reported (and counted) in its evidence
            u["obligations"] = [o for o in u["obligations"] if sel(o["name"])]
    for k in kani:
        fails += k.get("failures", [])
    for w in sweeps:
        sel = spec.get("select", {}).get(w["unit"])
        for rec in w["failing"]:
            if sel is None or sel(rec["obligation"]):
                fails.append({"obligation": rec["obligation"], "unit": w["unit"], "kind": "sweep", "label": rec["obligation"].split(".", 1)[1],
                              "message": "executed witness disagrees with the contract's oracle", "text": str(rec.get("input"))[:200],
                              "rendered": "", "concrete": rec})
    undecided += undecided_extra
    kf = findings.load()
    known, violations = [], []
    seen = set()
    for f in fails:
        if f["obligation"] in seen:
            continue
        seen.add(f["obligation"])
        m = findings.match(kf, pid, f["obligation"])
        if m:
            known.append({"obligation": f["obligation"], "finding": m["what"]})
            print("KNOWN-FINDING: property=%s %s -- %s" % (pid, f["obligation"], m["what"]))
        else:
            violations.append(f)
    samples = []
    for u in units:
        for o in u["obligations"][:4]:
            samples.append({"obligation": o["name"], "status": o["status"], "backend": o["backend"]})
    for k in kani:
        for o in k.get("obligations", [])[:3]:
            samples.append({"obligation": o["name"], "status": o["status"], "backend": o["backend"]})
    # replay for every violation
    vio_lines = []
    for f in violations:
        path, found = replaylib.make_replay(pid, f, REPLAYS)
        line = "VIOLATION property=%s replay=%s" % (pid, path)
        if not found:
            line += " no-failing-input-found"
        vio_lines.append(line)
    ev = write_evidence(pid, tier, seed, t0, units, kani, violations, known, undecided, samples, sweeps)
    for l in vio_lines:
        print(l)
    for f in violations:
        print("  failed obligation %s: %s [%s]" % (f["obligation"], f["message"], f.get("text", "")))
    if vio_lines:
        return 1
    if undecided:
        for u in undecided:
            print("UNDECIDED property=%s %s" % (pid, u[:3000]))
        return 2
    print("OK property=%s tier=%s obligations=%d discharged=%d known_findings=%d wall=%.1fs" % (
        pid, tier, ev["coverage"]["obligations"], ev["coverage"]["discharged"], len(known), time.time() - t0))
    return 0


def main():
    ap = argparse.ArgumentParser()
    ap.add_argument("target", nargs="?")
    ap.add_argument("--tier", default=os.environ.get("VERIF_TIER", "quick"))
    ap.add_argument("--unit")
    ap.add_argument("--list", action="store_true")
    ap.add_argument("--replay")
    ap.add_argument("--all", action="store_true")
    ap.add_argument("--raw", help="development: build unit and print Verus' rendered diagnostics")
    a = ap.parse_args()
    seed = int(os.environ.get("VERIF_SEED", "0") or 0)
    if a.list:
        for p, s in registry.PROPERTIES.items():
            print(p, s["units"])
        return 0
    if a.replay:
        return replaylib.run_replay(a.replay)
    if a.raw:
        b = build_unit(a.raw)
        r = verus.run(b["path"], rlimit=getattr(b["unit"], "RLIMIT", 30))
        print(r["raw"] if r["undecided"] else "")
        for f in r["failures"]:
            print(f["obligation"], "::", f["rendered"])
        print("undecided:", r["undecided"], "verified:", r["verified"], "errors:", r["errors"], "wall %.1f" % r["wall_s"])
        for f in r["functions"]:
            if not f["success"] or f["time_us"] > 2000000:
                print("  ", f)
        print("   %d functions, slowest: %s" % (len(r["functions"]), sorted([(f["time_us"] // 1000, f["function"]) for f in r["functions"]])[-3:]))
        return 0
    if a.unit:
        r = run_unit(a.unit, a.tier)
        for f in r["failures"]:
            print("FAIL", f["obligation"], "|", f["message"], "|", f.get("text", ""))
        if r["undecided"]:
            print("UNDECIDED", r["undecided"])
            return 2
        print("unit %s: %d obligations, %d failed, smt %d ms, wall %.1fs" % (
            a.unit, len(r["obligations"]), len([o for o in r["obligations"] if o["status"] == "failed"]),
            r["smt_ms"], r["wall_s"]))
        return 1 if r["failures"] else 0
    if a.all:
        rc = 0
        for p in registry.PROPERTIES:
            rc = max(rc, check_property(p, a.tier, seed))
        return rc
    if a.target not in registry.PROPERTIES:
        print("unknown or unclaimed property", a.target)
        return 2
    return check_property(a.target, a.tier, seed)


if __name__ == "__main__":
    sys.exit(main())
