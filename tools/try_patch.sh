#!/bin/sh
# usage: try_patch.sh <patch.diff> <Cnn> [--tier t]   -- apply a change to /repo, run one property's check with evidence redirected, undo the change
# (and rebuild the prqlc binary from the restored tree, so that later manual probes do not run the changed compiler)
P=$1; C=$2; shift 2
git -C /repo apply "$P" || exit 3
VERIF_EVIDENCE_DIR=/tmp/verif_try_evidence /verif/check "$C" "$@" 2>&1 | grep "VIOLATION\|failed obligation\|^OK\|UNDECIDED" | cut -c1-220
git -C /repo checkout -- .
rm -rf /tmp/verif_try_evidence
(cd /repo && CARGO_NET_OFFLINE=true cargo build -q -p prqlc --bin prqlc --offline >/dev/null 2>&1)
