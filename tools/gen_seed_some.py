"""Like tools/gen_seed_muts.py, for the seeds named on the command line only: re-runs the property's quick check on a scratch copy with the seed applied and updates
detected_by / check_exit in its meta.json and its `seed ..` entry of selftest/mutations.json (a full regeneration takes about half an hour)."""
import json
import sys
import threading

import gen_seed_muts as G


def main():
    seeds = sys.argv[1:]
    res = {}

    def work(d, slot):
        res[d] = G.run_one(d, slot)
        print(*res[d], flush=True)
    ts = [threading.Thread(target=work, args=(d, 100 + i)) for i, d in enumerate(seeds)]
    for t in ts:
        t.start()
    for t in ts:
        t.join()
    muts = json.load(open(G.ROOT + '/selftest/mutations.json'))
    for d in seeds:
        _, rc, failed, note = res[d]
        if rc is None:
            continue
        meta = json.load(open(f"{G.ROOT}/seeded/{d}/meta.json"))
        meta["detected_by"] = failed if rc == 1 else []
        meta["check_exit"] = rc
        json.dump(meta, open(f"{G.ROOT}/seeded/{d}/meta.json", "w"), indent=1)
        muts = [m for m in muts if m['name'] != "seed " + d]
        if rc == 1:
            muts.append({"name": "seed " + d, "property": d.split('-')[0], "patch": f"seeded/{d}/patch.diff", "expect": failed[:3]})
    json.dump(muts, open(G.ROOT + '/selftest/mutations.json', 'w'), indent=1)


if __name__ == "__main__":
    main()
