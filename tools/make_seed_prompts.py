#!/usr/bin/env python3
"""Builds the prompt of a seeding agent for one round: /tmp/seed_<Cnn><suffix>/{prompt.txt, property.json}.
The agent gets the text of the property and, so that it looks elsewhere, one line per change that earlier agents delivered for that property (file + first words of the summary) -
nothing from /verif itself.   usage: make_seed_prompts.py <suffix> [Cnn ...]"""
import json
import os
import sys

ROOT = os.path.dirname(os.path.dirname(os.path.abspath(__file__)))
suffix = sys.argv[1]
only = sys.argv[2:]
props = {json.loads(l)["id"]: json.loads(l) for l in open(os.path.join(ROOT, "properties.jsonl"))}
na = {"C11", "C15", "C17"}
tpl = open(os.path.join(ROOT, "tools", "seed_prompt_template.txt")).read()
for pid in sorted(props):
    if pid in na or (only and pid not in only):
        continue
    ident = pid + suffix
    d = "/tmp/seed_" + ident
    os.makedirs(d, exist_ok=True)
    json.dump(props[pid], open(os.path.join(d, "property.json"), "w"), indent=1)
    earlier = []
    for s in sorted(os.listdir(os.path.join(ROOT, "seeded"))):
        if s.split("-")[0] != pid:
            continue
        m = json.load(open(os.path.join(ROOT, "seeded", s, "meta.json")))
        files = m.get("files") or ["?"]
        earlier.append("  - %s: %s" % (files[0], " ".join(m.get("summary", "").split())[:200]))
    text = tpl.replace("@ID@", ident)
    text += ("\n\nEarlier rounds already delivered the following changes for this property; do NOT repeat them or close variants of them (same function, same idea):\n" + "\n".join(earlier) +
             "\nLook for other mechanisms the property depends on (other files of the resolver, the lowering, the SQL back end, the parser, the lexer or the formatter), including code "
             "that is NOT named in the property's anchors. While you explore: if you notice that the UNMODIFIED code already violates the property for some input, list those inputs "
             "at the end of your report (they are valuable), but do not use them for your demos.\n")
    open(os.path.join(d, "prompt.txt"), "w").write(text)
    print(ident, len(earlier), "earlier changes")
