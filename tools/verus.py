"""Run Verus on one generated unit file and turn its output into named obligations."""
import json
import os
import re
import subprocess
import time

from extract import code_tokens, match_brace, line_of, find_block_open

VERUS = os.environ.get("VERIF_VERUS", "verus")
LABEL_RE = re.compile(r"//\s*@([A-Za-z0-9_.:\-]+)")

UNDECIDED_PATTERNS = (
    "Resource limit (rlimit) exceeded",
    "resource limit",
    "timed out",
    "solver error",
)


def fn_ranges(src):
    """[(line_start, line_end, name)] for every fn item in the generated file."""
    toks = code_tokens(src)
    res = []
    for idx, (kind, s, e) in enumerate(toks):
        if kind == "ident" and src[s:e] == "fn" and idx + 1 < len(toks) and toks[idx + 1][0] == "ident":
            name = src[toks[idx + 1][1]:toks[idx + 1][2]]
            k = find_block_open(src, toks, idx)
            if k is None:
                res.append((line_of(src, s), line_of(src, s), name))
            else:
                close = match_brace(src, toks, k)
                res.append((line_of(src, s), line_of(src, toks[close][2]), name))
    return res


def enclosing_fn(ranges, line):
    best = None
    for a, b, name in ranges:
        if a <= line <= b and (best is None or a >= best[0]):
            best = (a, b, name)
    return best[2] if best else "<toplevel>"


def labels_in(src):
    """{label: line} for every `// @LABEL` comment in the generated file."""
    out = {}
    for no, line in enumerate(src.split("\n"), 1):
        for m in LABEL_RE.finditer(line):
            out.setdefault(m.group(1), []).append(no)
    return out


KIND = [
    ("possible arithmetic underflow/overflow", "overflow"),
    ("possible division by zero", "div0"),
    ("precondition not satisfied", "precondition"),
    ("postcondition not satisfied", "postcondition"),
    ("invariant not satisfied at end of loop body", "invariant_end"),
    ("invariant not satisfied before loop", "invariant_entry"),
    ("loop invariant not satisfied", "loop_exit"),
    ("unable to prove post-condition of closure", "closure_post"),
    ("assertion failed", "assert"),
    ("decreases not satisfied", "decreases"),
    ("could not prove termination", "decreases"),
    ("unreachable", "unreachable"),
    ("recommendation not met", "recommends"),
]


def run(path, rlimit=30, multiple_errors=10, threads=8, timeout=900, extra=()):
    """Returns dict(ok, undecided, failures=[{obligation, fn, kind, message, line, rendered}],
    functions=[{function, mode, success, time_us, rlimit}], verified, errors, wall_s, cmd)."""
    cmd = [VERUS, path, "--output-json", "--time-expanded", "--error-format=json",
           "--rlimit", str(rlimit), "--multiple-errors", str(multiple_errors),
           "--num-threads", str(threads)] + list(extra)
    t0 = time.time()
    try:
        p = subprocess.run(cmd, capture_output=True, text=True, timeout=timeout,
                           cwd=os.path.dirname(path))
    except subprocess.TimeoutExpired:
        return {"ok": False, "undecided": "verus timed out after %ds" % timeout, "failures": [],
                "functions": [], "verified": 0, "errors": 0, "wall_s": time.time() - t0,
                "cmd": " ".join(cmd), "raw": ""}
    wall = time.time() - t0
    src = open(path, encoding="utf-8").read()
    bsrc = src.encode("utf-8")
    lines = src.split("\n")
    ranges = fn_ranges(src)
    res = {"ok": False, "undecided": None, "failures": [], "functions": [], "verified": 0,
           "errors": 0, "wall_s": wall, "cmd": " ".join(cmd), "raw": p.stderr[-20000:]}
    try:
        js = json.loads(p.stdout)
    except Exception:
        res["undecided"] = "verus produced no JSON (exit %s): %s" % (p.returncode, p.stderr[-3000:])
        return res
    vr = js.get("verification-results", {})
    res["verified"] = vr.get("verified", 0)
    res["errors"] = vr.get("errors", 0)
    for mod in js.get("times-ms", {}).get("smt", {}).get("smt-run-module-times", []):
        for f in mod.get("function-breakdown", []):
            res["functions"].append({"function": f["function"].split("::")[-1], "path": f["function"], "mode": f.get("mode:"),
                                     "success": f["success"], "time_us": f.get("time-micros", 0),
                                     "rlimit": f.get("rlimit", 0)})
    res["smt_ms"] = js.get("times-ms", {}).get("smt", {}).get("total", 0)
    res["total_ms"] = js.get("times-ms", {}).get("total", 0)
    diags = []
    for ln in p.stderr.split("\n"):
        ln = ln.strip()
        if not ln.startswith("{"):
            continue
        try:
            diags.append(json.loads(ln))
        except Exception:
            pass
    if vr.get("encountered-vir-error") or (not vr and p.returncode != 0):
        res["frontend"] = []
        for d in diags:
            if d.get("level") != "error":
                continue
            for sp in d.get("spans", []):
                if sp.get("is_primary") and sp.get("file_name", "").endswith(os.path.basename(path)):
                    res["frontend"].append({"message": d.get("message", ""), "byte_start": sp["byte_start"],
                                            "byte_end": sp["byte_end"], "line": sp["line_start"]})
        res["undecided"] = "verus front-end error (unsupported construct or type error): " + \
            "; ".join(d.get("message", "") for d in diags if d.get("level") == "error")[:2000]
        return res
    for d in diags:
        if d.get("level") != "error":
            continue
        msg = d.get("message", "")
        if msg.startswith("aborting due to"):
            continue
        if any(u.lower() in msg.lower() for u in UNDECIDED_PATTERNS):
            res["undecided"] = msg
            continue
        spans = d.get("spans", [])
        prim = [s for s in spans if s.get("is_primary")] or spans
        if not prim:
            # compile-type error without span
            res["undecided"] = "verus error without span: " + msg
            continue
        kind = None
        for pat, k in KIND:
            if pat in msg:
                kind = k
                break
        if kind is None:
            res["undecided"] = "unclassified verus error (treated as front-end): " + msg
            for sp in prim:
                if sp.get("file_name", "").endswith(os.path.basename(path)):
                    res.setdefault("frontend", []).append({"message": msg, "byte_start": sp["byte_start"], "byte_end": sp["byte_end"],
                                                           "line": sp["line_start"]})
            continue
        if kind == "precondition":
            base = os.path.basename(path)
            foreign = [sp for sp in spans if not sp.get("file_name", "").endswith(base)]
            call_txt = ""
            for sp in prim:
                if sp.get("file_name", "").endswith(base):
                    call_txt = bsrc[sp["byte_start"]:sp["byte_end"]].decode("utf-8", "ignore")
            # Option/Result::unwrap / expect: the failed vstd precondition IS the panic condition -> a real obligation of the function
            panicking = bool(re.search(r"\.(unwrap|expect|unwrap_err|expect_err)\s*\((?:[^()]|\([^()]*\))*\)\s*$", call_txt.strip()))
            # indexing a Vec / slice: vstd's precondition `i < len` IS the out-of-bounds panic
            indexing = bool(re.search(r"[\w)\]]\s*\[(?:[^\[\]]|\[[^\[\]]*\])+\]\s*$", call_txt.strip())) and not call_txt.strip().startswith("#[")
            if panicking:
                kind = "unwrap"
            elif indexing:
                kind = "index"
            elif foreign and not any((sp.get("label") or "").startswith("failed precondition") and sp.get("file_name", "").endswith(base)
                                     for sp in spans):
                # the failed precondition is one of vstd's own (typically `f.requires(..)` of a closure passed to Option::map
                # and friends): the closure carries no contract, which is a limit of the dialect, not a defect of the code
                res["undecided"] = ("closure / std call without a contract: %s (%s)" %
                                    (msg, lines[prim[0]["line_start"] - 1].strip()[:200]))
                continue
        # the function in which the obligation arises = function containing the non-contract span
        body_span = None
        for s in spans:
            lab = s.get("label") or ""
            if "at the end of the function body" in lab or "at this exit" in lab or "at this call-site" in lab or "at this loop exit" in lab:
                body_span = s
        line = (body_span or prim[0])["line_start"]
        fn = enclosing_fn(ranges, line)
        label = None
        # labelled clause: any span whose lines carry `// @LABEL`; clause may span several lines,
        # so look from the span's first line to its last line and the line just after
        for s in spans:
            lab = s.get("label") or ""
            if body_span is not None and s is body_span:
                continue
            if not s.get("file_name", "").endswith(os.path.basename(path)):
                continue        # a span inside vstd: its line numbers mean nothing in the generated file
            for no in range(s["line_start"], min(s["line_end"] + 1, len(lines)) + 1):
                m = LABEL_RE.search(lines[no - 1])
                if m:
                    label = m.group(1)
                    break
            if label:
                break
        if label is None and body_span is not None:
            # also consider label at call-site / exit line
            m = LABEL_RE.search(lines[body_span["line_start"] - 1])
            if m:
                label = m.group(1)
        obligation = "%s.%s" % (fn, label if label else kind)
        res["failures"].append({"obligation": obligation, "fn": fn, "kind": kind, "label": label,
                                "message": msg, "line": prim[0]["line_start"],
                                "text": lines[prim[0]["line_start"] - 1].strip(),
                                "rendered": d.get("rendered", "")})
    if res["errors"] and not res["failures"] and not res["undecided"]:
        res["undecided"] = "verus reported errors that could not be mapped: " + p.stderr[-2000:]
    res["ok"] = (res["errors"] == 0 and not res["undecided"] and vr.get("success", False))
    return res
