#!/bin/bash
# usage: seed_check.sh <seeded dir name, e.g. C08-11> [--tier thorough]  -- run the property's check against a scratch copy of /repo's sources with the seed applied (never /repo)
D=$1; P=${SEED_PROP:-${D%%-*}}   # SEED_PROP=Cnn: check the seed against another property (to find registration gaps)
SCR=/tmp/verif_seedcheck_$D; rm -rf "$SCR"; mkdir -p "$SCR"
if [ "${2:-}" = "--tier" ]; then
  # the thorough tier builds and runs the real compiler: the scratch copy is a complete workspace (with /repo's build output, so that only the changed crates are rebuilt)
  rsync -a --exclude .git /repo/ "$SCR/"
else
  rsync -a --exclude target --exclude .git --exclude web --exclude '*.snap' /repo/ "$SCR/"
fi
(cd "$SCR" && patch -p1 -s -i "/verif/seeded/$D/patch.diff") || { echo "SEED $D: patch fails"; rm -rf "$SCR"; exit 0; }
shift
if [ "$1" = "--tier" ]; then
  OUT=$(VERIF_REPO=$SCR VERIF_EVIDENCE_DIR=$SCR/_ev /verif/check "$P" "$@" 2>&1 | grep "failed obligation\|^OK\|UNDECIDED" | cut -c1-300 | head -8)
else
  OUT=$(VERIF_REPO=$SCR VERIF_EVIDENCE_DIR=$SCR/_ev VERIF_NO_REPLAY=1 /verif/check "$P" "$@" 2>&1 | grep "failed obligation\|^OK\|UNDECIDED" | cut -c1-300 | head -8)
fi
rm -rf "$SCR"
echo "SEED $D:"; echo "$OUT" | sed 's/^/      /'
