#!/bin/bash
# usage: seed_verify.sh <worktree> <seed_dir>   -- confirms a seeded change independently:
#   patch applies on current /repo HEAD, test suite passes with it, demo fails with it and passes without it
set -u
WT=$1; SD=$2
cd "$WT" || exit 2
git checkout -q -- . && git checkout -q --detach "$(git -C /repo rev-parse HEAD)" || exit 2
echo "== demo on clean HEAD"; bash "$SD/demo.sh" "$WT" >/tmp/seed_demo_clean.$$.log 2>&1; RC_CLEAN=$?
git apply "$SD/patch.diff" || { echo "PATCH DOES NOT APPLY"; exit 3; }
echo "== tests with change"
# (a worktree that was moved keeps test binaries with the old path baked in: force the one snapshot-reading test crate to rebuild - mtime only)
touch prqlc/prqlc-parser/src/test.rs 2>/dev/null
export CARGO_INCREMENTAL=0
CARGO_NET_OFFLINE=true cargo nextest run --workspace --no-fail-fast --tool-config-file pb:/w/lib/nextest.toml --profile pb --test-threads 8 --offline 2>&1 | tail -3 | tee /tmp/seed_tests.$$.log
echo "== demo with change"; bash "$SD/demo.sh" "$WT" >/tmp/seed_demo_patched.$$.log 2>&1; RC_PATCHED=$?
git checkout -q -- .
echo "RESULT clean_demo_rc=$RC_CLEAN patched_demo_rc=$RC_PATCHED tests: $(grep -o '[0-9]* passed' /tmp/seed_tests.$$.log | head -1)"
