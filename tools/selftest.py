#!/usr/bin/env python3
"""Mutation self-test of the contracts (DESIGN.md 4.6).

Each entry of selftest/mutations.json edits (string edits, or a patch file such as seeded/<id>/patch.diff) a scratch copy of /repo's sources (never /repo) and
runs the unit against it.  `expect` is either the list of obligations that must fail, or "ok" for
a benign refactor that must keep verifying, or "undecided" for an edit that must yield exit 2.
The scratch copy lives under $VERIF_SCRATCH (default /tmp/verif_selftest) and is removed afterwards.

usage: selftest.py [name-substring ...]
"""
import json
import os
import shutil
import subprocess
import sys

HERE = os.path.dirname(os.path.abspath(__file__))
ROOT = os.path.dirname(HERE)
SCRATCH = os.environ.get("VERIF_SCRATCH", "/tmp/verif_selftest")


def main():
    muts = json.load(open(os.path.join(ROOT, "selftest", "mutations.json")))
    sel = [a for a in sys.argv[1:] if a != "--only"]
    # VERIF_SELFTEST_NO_SEEDS=1 skips the `seed ..` entries (tools/gen_seed_muts.py has just run exactly those checks); VERIF_SELFTEST_SHARD=i/n takes every n-th entry
    # (run the shards with different VERIF_SCRATCH directories)
    no_seeds = bool(os.environ.get("VERIF_SELFTEST_NO_SEEDS"))
    shard = os.environ.get("VERIF_SELFTEST_SHARD")
    si, sn = (int(x) for x in shard.split("/")) if shard else (0, 1)
    bad = 0
    for k, m in enumerate(muts):
        if sel and not any(s in m["name"] for s in sel):
            continue
        if no_seeds and m["name"].startswith("seed "):
            continue
        if k % sn != si:
            continue
        if os.path.exists(SCRATCH):
            shutil.rmtree(SCRATCH)
        os.makedirs(SCRATCH)
        subprocess.check_call(["rsync", "-a", "--exclude", "target", "--exclude", ".git", "--exclude", "web",
                               "--exclude", "*.snap", "/repo/", SCRATCH + "/"])
        if m.get("patch"):
            pr = subprocess.run(["patch", "-p1", "-s", "-i", os.path.join(ROOT, m["patch"])], cwd=SCRATCH, capture_output=True, text=True)
            if pr.returncode != 0:
                print("SELFTEST-STALE %s: patch does not apply: %s" % (m["name"], pr.stdout[-300:]))
                bad += 1
                continue
        for ed in m.get("edits", []):
            p = os.path.join(SCRATCH, ed["file"])
            s = open(p).read()
            if s.count(ed["old"]) != ed.get("count", 1):
                print("SELFTEST-STALE %s: pattern %r occurs %d times" % (m["name"], ed["old"], s.count(ed["old"])))
                bad += 1
                break
            s = s.replace(ed["old"], ed["new"])
            open(p, "w").write(s)
        else:
            env = dict(os.environ, VERIF_REPO=SCRATCH)
            env["VERIF_EVIDENCE_DIR"] = os.path.join(SCRATCH, "_evidence")
            env["VERIF_NO_REPLAY"] = "1"
            if m.get("property"):
                r = subprocess.run([os.path.join(ROOT, "check"), m["property"]], env=env, capture_output=True, text=True)
                failed = sorted({l.split()[2].rstrip(":") for l in r.stdout.split("\n") if l.strip().startswith("failed obligation ")})
            else:
                r = subprocess.run([os.path.join(ROOT, "check"), "--unit", m["unit"]], env=env,
                                   capture_output=True, text=True)
                failed = sorted({l.split()[1] for l in r.stdout.split("\n") if l.startswith("FAIL ")})
            exp = m["expect"]
            if exp == "ok":
                ok = r.returncode == 0
            elif exp == "undecided":
                ok = r.returncode == 2
            elif exp == "fail-any":
                ok = r.returncode == 1 and len(failed) > 0
            elif exp == "ok-or-undecided":
                ok = r.returncode in (0, 2)   # a benign refactor must never raise an alarm
            else:
                ok = r.returncode == 1 and all(e in failed for e in exp)
            print("%s %-40s unit=%-14s rc=%d failed=%s expect=%s" % (
                "PASS" if ok else "MISS", m["name"], m.get("unit") or m.get("property"), r.returncode, failed, exp))
            if not ok:
                bad += 1
                print(r.stdout[-1500:])
    shutil.rmtree(SCRATCH, ignore_errors=True)
    return 1 if bad else 0


if __name__ == "__main__":
    sys.exit(main())
