"""known_findings.txt: genuine defects of max-sixty/prql that are recorded rather than repaired.

Line format (one per finding; '#' comments):
  finding: property=<id> obligation=<unit.label-or-fn.kind> :: <what fails, concrete input>
  fixed:   property=<id> <commit> <what failed>          (suppresses nothing)
The file is never written at run time.
"""
import os
import re

PATH = os.path.join(os.path.dirname(os.path.dirname(os.path.abspath(__file__))), "known_findings.txt")


def load():
    out = []
    if not os.path.exists(PATH):
        return out
    for line in open(PATH, encoding="utf-8"):
        line = line.strip()
        m = re.match(r"finding:\s+property=(\S+)\s+obligation=(\S+)\s+::\s+(.*)$", line)
        if m:
            out.append({"property": m.group(1), "obligation": m.group(2), "what": m.group(3)})
    return out


def match(kf, pid, obligation):
    for k in kf:
        if k["property"] != pid:
            continue
        if k["obligation"] == obligation:
            return k
        # `prefix.*` names every row of ONE call site / table row group (e.g. all child classes at the `||` site)
        if k["obligation"].endswith(".*") and obligation.startswith(k["obligation"][:-1]):
            return k
    return None
