"""Replay of a failed obligation against the real prqlc built from /repo's working tree."""
import json
import os
import re
import subprocess
import sys


def make_replay(pid, failure, outdir):
    os.makedirs(outdir, exist_ok=True)
    name = re.sub(r"[^A-Za-z0-9_.-]", "_", failure["obligation"])
    path = os.path.join(outdir, "%s_%s.json" % (pid, name))
    doc = {"property": pid, "obligation": failure["obligation"], "verifier_message": failure.get("message"),
           "verifier_output": failure.get("rendered", ""), "source_text": failure.get("text"),
           "input": None, "expected": None, "observed": None, "how_to_run": "./check --replay " + path}
    found = False
    if failure.get("concrete"):
        doc.update({k: v for k, v in failure["concrete"].items() if k != "obligation"})
        found = True
        with open(path, "w") as f:
            json.dump(doc, f, indent=1, default=str)
        return path, found
    try:
        unit = __import__(failure.get("unit", ""))
        if hasattr(unit, "replay") and not os.environ.get("VERIF_NO_REPLAY"):
            r = unit.replay(failure)
            if r:
                doc.update(r)
                found = bool(r.get("failing"))
    except Exception as e:  # replay machinery must never turn a violation into a crash
        doc["replay_error"] = repr(e)
    with open(path, "w") as f:
        json.dump(doc, f, indent=1)
    return path, found


def run_replay(path):
    doc = json.load(open(path))
    print(json.dumps({k: doc.get(k) for k in ("property", "obligation", "input", "expected", "observed")}, indent=1))
    if doc.get("input") and doc.get("replay_kind"):
        unit = __import__(doc["obligation"].split(".")[0])
        r = unit.rerun(doc)
        print("re-executed on current tree:", json.dumps(r, indent=1))
        return 1 if r.get("failing") else 0
    print("no concrete input recorded; verifier output follows\n" + (doc.get("verifier_output") or ""))
    return 1


# ----------------------------------------------------------------------------- real-code helpers
REPO = os.environ.get("VERIF_REPO", "/repo")
_BIN = {}


def prqlc_bin():
    """Build the real prqlc CLI from the current working tree (incremental) and return its path."""
    if "bin" in _BIN:
        return _BIN["bin"]
    env = dict(os.environ, CARGO_NET_OFFLINE="true")
    env.pop("RUST_BACKTRACE", None)
    r = subprocess.run(["cargo", "build", "--offline", "-q", "-p", "prqlc", "--bin", "prqlc"],
                       cwd=REPO, env=env, capture_output=True, text=True)
    if r.returncode != 0:
        raise RuntimeError("cargo build failed: " + r.stderr[-2000:])
    _BIN["bin"] = os.path.join(REPO, "target", "debug", "prqlc")
    return _BIN["bin"]


def errdump_bin():
    """Build (incrementally) the harness tools/errdump against the working tree: prqlc::compile's ErrorMessages as JSON - the CLI prints only the rendered text.
    Its sources are instantiated under <repo>/target/verif-errdump (build output of the tree it is built from, removed with it)."""
    if "errdump" in _BIN:
        return _BIN["errdump"]
    here = os.path.join(os.path.dirname(os.path.abspath(__file__)), "errdump")
    out = os.path.join(REPO, "target", "verif-errdump")
    os.makedirs(os.path.join(out, "crate", "src"), exist_ok=True)

    def put(path, text):
        if not os.path.exists(path) or open(path).read() != text:
            open(path, "w").write(text)
    put(os.path.join(out, "crate", "Cargo.toml"), open(os.path.join(here, "Cargo.toml")).read().replace("@REPO@", REPO))
    put(os.path.join(out, "crate", "src", "main.rs"), open(os.path.join(here, "src", "main.rs")).read())
    put(os.path.join(out, "crate", "Cargo.lock"), open(os.path.join(REPO, "Cargo.lock")).read())
    env = dict(os.environ, CARGO_NET_OFFLINE="true", CARGO_TARGET_DIR=out)
    env.pop("RUST_BACKTRACE", None)
    r = subprocess.run(["cargo", "build", "--offline", "-q"], cwd=os.path.join(out, "crate"), env=env, capture_output=True, text=True)
    if r.returncode != 0:
        raise RuntimeError("cargo build of the errdump harness failed: " + r.stderr[-2000:])
    _BIN["errdump"] = os.path.join(out, "debug", "verif-errdump")
    return _BIN["errdump"]


def compile_errors(prql, target=None):
    """prqlc::compile on the real code: ('ok', sql) | ('errors', [ {reason, span, location, display, ..} ]) | ('panic', text)."""
    import tempfile
    with tempfile.NamedTemporaryFile("w", suffix=".prql", delete=False, encoding="utf-8") as f:
        f.write(prql)
    try:
        r = subprocess.run([errdump_bin(), f.name] + ([target] if target else []), capture_output=True, text=True, env=dict(os.environ, RUST_BACKTRACE="0", NO_COLOR="1"), timeout=60)
    finally:
        os.unlink(f.name)
    if r.returncode != 0:
        return "panic", (r.stderr + r.stdout)[:600]
    doc = json.loads(r.stdout)
    if "ok" in doc:
        return "ok", doc["ok"]
    return "errors", doc["inner"]


def compile_prql(prql, target=None, fmt=False):
    """(ok, text) from the real compiler; panics are reported as ok=False with 'PANIC' in text."""
    env = dict(os.environ, RUST_BACKTRACE="0", NO_COLOR="1")
    if fmt:
        cmd = [prqlc_bin(), "fmt", "-"]
    else:
        cmd = [prqlc_bin(), "compile", "--hide-signature-comment"]
        if target:
            cmd += ["-t", target]
    # bytes in, bytes out: text mode would turn a CR LF inside a literal of the SQL into LF (universal newlines)
    rb = subprocess.run(cmd, input=prql.encode("utf-8"), capture_output=True, env=env, timeout=60)
    out, err = rb.stdout.decode("utf-8", "replace"), rb.stderr.decode("utf-8", "replace")
    if rb.returncode == 0:
        return True, out
    txt = err + out
    if "panicked" in txt:
        txt = "PANIC " + txt
    return False, txt


def sqlite_rows(setup_sql, query):
    import sqlite3
    con = sqlite3.connect(":memory:")
    con.executescript(setup_sql)
    try:
        return True, con.execute(query).fetchall()
    except Exception as e:
        return False, repr(e)
    finally:
        con.close()
