#!/bin/sh
# run every claimed property's quick check on the unchanged tree; refuse (exit 1) if any reports VIOLATION / UNDECIDED
cd /verif && python3 tools/gen_manifest.py >/dev/null && ./check --all 2>&1 | grep "^OK\|^VIOLATION\|^UNDECIDED" | cut -c1-140 > /tmp/precommit.log
cat /tmp/precommit.log | grep -v "^OK" ; n=$(grep -c "^OK" /tmp/precommit.log); echo "$n properties OK"
if grep -q "^VIOLATION\|^UNDECIDED" /tmp/precommit.log; then exit 1; fi
[ "$n" -eq 15 ]
