#!/bin/bash
# usage: seed_round.sh <agent-id, e.g. C08r6> <change number> <round>   -- confirm a delivered change (tools/seed_verify.sh in the agent's scratch worktree), import it as
# seeded/<Cnn>-<next>/ and run the property's quick check against a scratch copy of /repo's sources with the patch applied (never /repo).  Prints one summary line.
set -u
ID=$1; N=$2; RND=$3; P=${ID%%r*}
SD=/tmp/seed_$ID/change$N; WT=${SEED_WT:-/tmp/wt_$ID}   # SEED_WT: one shared scratch worktree for the confirmation (the agents' own ones are removed as soon as they are done)
[ -f "$SD/patch.diff" ] || { echo "SEED $ID/$N: nothing delivered"; exit 0; }
RES=$(bash /verif/tools/seed_verify.sh "$WT" "$SD" 2>&1 | grep "^RESULT\|PATCH DOES NOT APPLY" | tail -1)
case "$RES" in
  *"clean_demo_rc=0 patched_demo_rc=0"*|*"PATCH DOES NOT"*|"") echo "SEED $ID/$N: NOT CONFIRMED: $RES"; exit 0;;
esac
echo "$RES" | grep -q "clean_demo_rc=0" || { echo "SEED $ID/$N: NOT CONFIRMED (demo fails on clean HEAD): $RES"; exit 0; }
echo "$RES" | grep -q "613 passed" || { echo "SEED $ID/$N: NOT CONFIRMED (tests): $RES"; exit 0; }
DST=$(python3 /verif/tools/seed_add.py "$SD" "$P" "$RND" "$RES")
SCR=/tmp/verif_seedround_${ID}_${N}; rm -rf "$SCR"; mkdir -p "$SCR"
rsync -a --exclude target --exclude .git --exclude web --exclude '*.snap' /repo/ "$SCR/"
(cd "$SCR" && patch -p1 -s -i "$DST/patch.diff") || { echo "SEED $ID/$N: imported as $DST but patch(1) fails on the scratch copy"; exit 0; }
OUT=$(VERIF_REPO=$SCR VERIF_EVIDENCE_DIR=$SCR/_ev VERIF_NO_REPLAY=1 /verif/check "$P" 2>&1 | grep "failed obligation\|^OK\|UNDECIDED" | cut -c1-260 | head -6)
rm -rf "$SCR"
echo "SEED $ID/$N -> $(basename $DST): $RES"; echo "$OUT" | sed 's/^/      /'
