// usage: verif-errdump <file.prql> [target]   -- prints {"ok": sql} or the ErrorMessages of prqlc::compile as JSON
fn main() {
    let path = std::env::args().nth(1).expect("usage: verif-errdump <file.prql> [target]");
    let src = std::fs::read_to_string(&path).unwrap();
    let mut opts = prqlc::Options::default().no_signature().with_display(prqlc::DisplayOptions::Plain);
    if let Some(t) = std::env::args().nth(2) {
        opts = opts.with_target(std::str::FromStr::from_str(&t).unwrap());
    }
    match prqlc::compile(&src, &opts) {
        Ok(sql) => println!("{{\"ok\": {}}}", serde_json::to_string(&sql).unwrap()),
        Err(e) => println!("{}", e.to_json()),
    }
}
