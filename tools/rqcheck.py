#!/usr/bin/env python3
"""Executed check of the sentence of C16 on the RQ the real resolver returns (thorough tier; NOT counted as proof).

The RQ is read from `prqlc compile --debug-log` (entry ReprRq, logged right after lowering).  Checked per relational query:
  - every column id is defined exactly once: by a column of a table instance (From / Join / Append / Loop operand) or by a Compute;
  - every column id used (Select, Filter, Sort, Take partition / sort / range, Join filter, Compute expr / window, Aggregate) is defined EARLIER IN THE SAME PIPELINE;
  - every table id referenced is declared earlier in the table list (or is the table being declared, inside Loop);
  - every pipeline starts with From and ends with a Select whose arity is the number of declared columns of its relation.
"""
import json
import os
import subprocess
import tempfile

import replaylib


def load_rq(prql, target="sql.sqlite"):
    with tempfile.TemporaryDirectory() as d:
        dbg = os.path.join(d, "dbg.json")
        env = dict(os.environ, RUST_BACKTRACE="0", NO_COLOR="1")
        r = subprocess.run([replaylib.prqlc_bin(), "compile", "--hide-signature-comment", "-t", target, "--debug-log", dbg, "-"],
                           input=prql, capture_output=True, text=True, env=env, timeout=60)
        rq = None
        if os.path.exists(dbg):
            for e in json.load(open(dbg)).get("entries", []):
                k = e.get("kind")
                if isinstance(k, dict) and "ReprRq" in k:
                    rq = k["ReprRq"]
        txt = r.stderr + r.stdout
        return r.returncode, ("PANIC " + txt if "panicked" in txt else txt), rq


def _col_refs(x, out):
    if isinstance(x, dict):
        for k, v in x.items():
            if k == "ColumnRef" and isinstance(v, int):
                out.append(v)
            else:
                _col_refs(v, out)
    elif isinstance(x, list):
        for v in x:
            _col_refs(v, out)


def check_rq(rq):
    problems = []
    defined = {}
    declared_tids = set()

    def define(cid, where, vis):
        if cid in defined:
            problems.append("cid %d defined twice: %s and %s" % (cid, defined[cid], where))
        defined[cid] = where
        vis.add(cid)

    def use(x, where, vis):
        refs = []
        _col_refs(x, refs)
        for cid in refs:
            if cid not in vis:
                problems.append("cid %d used at %s is not visible in that pipeline" % (cid, where))

    def use_cids(cids, where, vis):
        for cid in cids:
            if cid not in vis:
                problems.append("cid %d used at %s is not visible in that pipeline" % (cid, where))

    def table_ref(tr, where, vis, own_tid=None):
        if tr["source"] not in declared_tids and tr["source"] != own_tid:
            problems.append("tid %d referenced at %s before its declaration" % (tr["source"], where))
        for _c, cid in tr["columns"]:
            define(cid, where, vis)

    def pipeline(p, ncols, where, own_tid=None, outer_vis=None):
        vis = set(outer_vis or ())
        # the step of a Loop continues the enclosing pipeline (it has no From of its own)
        if outer_vis is None and (not p or "From" not in p[0]):
            problems.append("%s does not start with From" % where)
        last = p[-1] if p else {}
        if "Select" not in last:
            problems.append("%s does not end with Select" % where)
        elif ncols is not None and len(last["Select"]) != ncols:
            problems.append("%s ends with a Select of %d columns, its relation declares %d" % (where, len(last["Select"]), ncols))
        for i, t in enumerate(p):
            (kind, v), = t.items() if isinstance(t, dict) else ((t, None),)
            w = "%s[%d:%s]" % (where, i, kind)
            if kind == "From":
                table_ref(v, w, vis, own_tid)
            elif kind == "Compute":
                use(v.get("expr"), w + ".expr", vis)
                win = v.get("window")
                if win:
                    use_cids(win.get("partition", []), w + ".window.partition", vis)
                    use_cids([s["column"] for s in win.get("sort", [])], w + ".window.sort", vis)
                    use(win.get("frame"), w + ".window.frame", vis)
                define(v["id"], w, vis)
            elif kind == "Select":
                use_cids(v, w, vis)
            elif kind == "Filter":
                use(v, w, vis)
            elif kind == "Aggregate":
                use_cids(v.get("partition", []), w + ".partition", vis)
                use_cids(v.get("compute", []), w + ".compute", vis)
                # an aggregation outputs its partition and its computed columns: nothing else of its input is visible behind it
                keep = set(v.get("partition", [])) | set(v.get("compute", []))
                for c in list(vis):
                    if c not in keep:
                        vis.discard(c)
            elif kind == "Sort":
                use_cids([s["column"] for s in v], w, vis)
            elif kind == "Take":
                use(v.get("range"), w + ".range", vis)
                use_cids(v.get("partition", []), w + ".partition", vis)
                use_cids([s["column"] for s in v.get("sort", [])], w + ".sort", vis)
            elif kind == "Join":
                table_ref(v["with"], w + ".with", vis, own_tid)
                use(v.get("filter"), w + ".filter", vis)
            elif kind == "Append":
                table_ref(v, w, set(), own_tid)     # the bottom's columns are not visible in the top pipeline
            elif kind == "Loop":
                pipeline(v, None, w, own_tid, vis)
        return vis

    def relation(rel, where, own_tid=None):
        k = rel["kind"]
        ncols = len(rel["columns"])
        if isinstance(k, dict) and "Pipeline" in k:
            pipeline(k["Pipeline"], ncols, where, own_tid)

    for t in rq.get("tables", []):
        relation(t["relation"], "table %d" % t["id"], t["id"])
        declared_tids.add(t["id"])
    relation(rq["relation"], "main")
    return problems


# programs over tables x(k, ..), a(id, u), b(id, v), c(id, name): nested sub-pipelines, group / window, append, loop, several references to one let-table
CORPUS = [
    "from x\nselect {k}\njoin y (==k)\ntake 2\n",
    "from x\njoin (\n  from a\n  select {aid = id, u}\n  join (from b | select {bid = id, v}) (aid == bid)\n  filter u > 1\n) (x.k == aid)\njoin c (c.id == bid)\nderive {w = v * 2}\nfilter w > 5\nsort {-v}\nselect {x.k, u, w, c.name}\n",
    "from x\njoin (from a | join (from b | join c (b.id == c.id) | select {bid = b.id, name}) (a.id == bid) | select {aid = a.id, name}) (x.k == aid)\nselect {x.k, name}\n",
    "from a\ngroup u (sort id | take 2)\nderive {r = row_number this}\n",
    "from a\ngroup u (aggregate {n = count this, s = sum id})\nfilter n > 1\nsort s\n",
    "from a\nwindow rolling:3 (derive {m = sum id})\nsort m\ntake 5\n",
    "from a\nselect {id, u}\nappend (from b | select {id, v})\nfilter id > 1\n",
    "from a\nselect {id, u}\nappend (from b | select {id, v} | append (from c | select {id, name}))\n",
    "let s = (from a | filter u > 1 | select {id, u})\nfrom s\njoin t = s (==id)\nselect {s.id, t.u}\n",
    "let s = (from a | sort u | select {id, u})\nlet hi = (from s | take 3)\nlet lo = (from s | filter u > 3 | take 3)\nfrom hi\njoin lo (==id)\nselect {hi.id, lo.u}\n",
    "from [{n = 1}]\nloop (filter n < 4 | select n = n + 1)\n",
    "from a\nselect !{u}\n",
    "from e = a\njoin d = b (==id)\nselect !{e.u, d.v}\n",
    "from s\"SELECT b, a FROM t\"\nfilter a > 1\nderive c = a + b\n",
    "from a\nderive {d = u - 1}\ngroup d (take 1)\njoin b (==id)\nsort {d, v}\n",
    "from a\njoin side:left b (==id)\nfilter b.id == null\nselect {a.id, a.u}\n",
    "from a\nselect {id, u}\nremove (from b | select {id, v})\n",
    "from a\nselect {id, u}\nintersect (from b | select {id, v})\n",
    "from a\nderive {g = case [u > 1 => 'hi', true => 'lo']}\ngroup g (aggregate {n = count this})\n",
    "from x\njoin (from a | group u (aggregate {n = count this})) (x.k == u)\nselect {x.k, n}\n",
    # the sort of an appended sub-pipeline stays inside it: what follows the append is ordered by the top's sort
    "from a\nselect {id, u}\nsort {-u}\nappend (from b | select {id, v = v * 2} | sort v)\nderive rn = (row_number this)\n",
    "from a\nselect {id, u}\nsort {-u}\nappend (from b | select {id, v} | sort v)\ntake 2\n",
    # an aliased, computed group key is declared once, in front of the aggregation
    "from a\ngroup {d = u + 1} (aggregate {n = count this, total = sum id} | derive {avg = total / n})\nsort d\n",
    "from a\ngroup {d = u + 1} (sort id | take 2 | derive {r = row_number this})\n",
    # a joined sub-pipeline that uses a column of its input by name, and the outer pipeline refers to the same column of the joined side (round-6 seed C16-10)
    "from a\njoin side:inner m = (from a | filter id > 1 | derive band = u / 100) (a.u == m.id)\nselect {a.id, mgr = m.id, m.band}\nsort {a.id}\n",
    # a window inside a group, followed by more transforms of that group: they keep the partition (round-7 seed C16-12)
    "from a\ngroup u (window expanding:true (derive running = (sum id)) | aggregate {peak = max running})\n",
    # a computed group key, and a join of an inline sub-pipeline inside the group: the key is declared in the group's own pipeline (round-7 seed C16-13)
    "from a\ngroup {kk = u + 1} (join (from b | derive w = v * 2 | select {id, w}) (==id) | aggregate {s = sum w})\n",
    # a constant with one node id used as a whole column inside a let-table and as an operand in the main pipeline (round-6 seed C16-11)
    "let threshold = 100\nlet big = (from a | derive {t = threshold} | filter u > t)\nfrom big\nfilter u > threshold * 2\n",
]


def sweep(obligation="rq_shape.PS1"):
    out = []
    for src in CORPUS:
        rc, txt, rq = load_rq(src)
        if txt.startswith("PANIC"):
            out.append({"input": src, "expected": "an RQ or a list of errors", "observed": txt[:300], "failing": True, "replay_kind": "rq", "obligation": obligation})
            continue
        if rq is None:
            out.append({"input": src, "expected": "an RQ or a list of errors", "observed": "no RQ (rc=%d): %s" % (rc, txt[:200]), "failing": False, "replay_kind": "rq", "obligation": obligation})
            continue
        problems = check_rq(rq)
        out.append({"input": src, "expected": "closed, consistently identified RQ", "observed": problems[:6] or "ok", "failing": bool(problems), "replay_kind": "rq", "obligation": obligation})
    return out


def rerun(doc):
    rc, txt, rq = load_rq(doc["input"])
    if txt.startswith("PANIC"):
        return dict(doc, observed=txt[:300], failing=True)
    problems = check_rq(rq) if rq else []
    return dict(doc, observed=problems[:6] or "ok", failing=bool(problems))


if __name__ == "__main__":
    bad = 0
    for r in sweep():
        print("FAIL" if r["failing"] else "ok  ", repr(r["input"][:70]), "" if not r["failing"] else r["observed"])
        bad += r["failing"]
    raise SystemExit(1 if bad else 0)
